#!/usr/bin/env bash
# Builds the framework from files on disk only (offline) and warms the build cache.
set -e
cd "$(dirname "$0")"
export GOFLAGS=-mod=mod GOPROXY=off GOSUMDB=off GOTOOLCHAIN=local
mkdir -p bin evidence replays /var/tmp/verif-work
if [ -d tools/instrument ]; then
  (cd tools/instrument && go build -o ../../bin/instrument .)
fi
# warm the cache: standard library (plain and -race) and the harness against /repo
W=$(mktemp -d /var/tmp/verif-work/setup-XXXXXX)
trap 'rm -rf "$W"' EXIT
mkdir -p "$W/repo" "$W/sim" "$W/repo/verifshim"
rsync -a --exclude .git --exclude benchmarks /repo/ "$W/repo/"
rsync -a shim/ "$W/repo/verifshim/"
bin/instrument "$W/repo" > /dev/null
rsync -a sim/ "$W/sim/"
cp /repo/go.sum "$W/sim/go.sum"
(cd "$W/sim" && go build -trimpath -tags simsched -o "$W/worker" ./cmd/worker && go build -trimpath -o "$W/supervisor" ./cmd/supervisor)
(cd "$W/sim" && go build -trimpath -tags simsched -race -o "$W/worker-race" ./cmd/worker)
(cd "$W/sim" && go build -trimpath -tags simsched -gcflags=all=-d=checkptr -o "$W/worker-checkptr" ./cmd/worker)
echo "setup: ok"
