#!/usr/bin/env bash
# development helper: builds instrumented worker binaries into /var/tmp/verif-dev (not used by checks)
set -e
export GOFLAGS=-mod=mod GOPROXY=off GOSUMDB=off GOTOOLCHAIN=local
D=/var/tmp/verif-dev; REPO="${VERIF_REPO:-/repo}"
rm -rf $D; mkdir -p $D/repo $D/sim
rsync -a --exclude .git --exclude benchmarks $REPO/ $D/repo/
rsync -a /verif/sim/ $D/sim/; cp $REPO/go.sum $D/sim/go.sum
mkdir -p $D/repo/verifshim; rsync -a /verif/shim/ $D/repo/verifshim/
/verif/bin/instrument $D/repo >/dev/null
cd $D/sim
go build -trimpath -tags simsched -race -o $D/worker-race ./cmd/worker
go build -trimpath -tags simsched -o $D/worker ./cmd/worker
echo built $D/worker $D/worker-race
