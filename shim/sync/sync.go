// Package sync is the simulator's stand-in for the standard "sync" package in
// the import-redirected copy of the library.  Every operation is a scheduling
// point followed by the real operation (so the race detector still sees real
// mutexes), except that blocking is cooperative and Pool is simulated.
package sync

import (
	stdsync "sync"
	"sync/atomic"

	"github.com/segmentio/encoding/verifshim/simhook"
)

type (
	Locker    = stdsync.Locker
	WaitGroup = stdsync.WaitGroup
)

// Mutex: Lock spins cooperatively on TryLock, because a simulated task that
// parked while holding a real mutex would deadlock the single running goroutine.
type Mutex struct {
	mu  stdsync.Mutex
	reg uint32
	id  int
}

//go:norace
func (m *Mutex) register() {
	if m.reg == 0 {
		m.reg = 1
		m.id = simhook.Register(func() { m.mu = stdsync.Mutex{}; m.reg = 0 })
	}
}

//go:norace
func (m *Mutex) Lock() {
	m.register()
	simhook.Yield(simhook.KLock, m.id)
	for !m.mu.TryLock() {
		simhook.Yield(simhook.KBlocked, m.id)
	}
	simhook.LockHeld(1)
}

//go:norace
func (m *Mutex) TryLock() bool {
	m.register()
	simhook.Yield(simhook.KLock, m.id)
	ok := m.mu.TryLock()
	if ok {
		simhook.LockHeld(1)
	}
	return ok
}

//go:norace
func (m *Mutex) Unlock() {
	m.register()
	m.mu.Unlock()
	simhook.LockHeld(-1)
	simhook.Yield(simhook.KUnlock, m.id)
}

type RWMutex struct {
	mu  stdsync.RWMutex
	reg uint32
	id  int
}

//go:norace
func (m *RWMutex) register() {
	if m.reg == 0 {
		m.reg = 1
		m.id = simhook.Register(func() { m.mu = stdsync.RWMutex{}; m.reg = 0 })
	}
}

//go:norace
func (m *RWMutex) Lock() {
	m.register()
	simhook.Yield(simhook.KLock, m.id)
	for !m.mu.TryLock() {
		simhook.Yield(simhook.KBlocked, m.id)
	}
	simhook.LockHeld(1)
}

//go:norace
func (m *RWMutex) Unlock() {
	m.register()
	m.mu.Unlock()
	simhook.LockHeld(-1)
	simhook.Yield(simhook.KUnlock, m.id)
}

//go:norace
func (m *RWMutex) RLock() {
	m.register()
	simhook.Yield(simhook.KLock, m.id)
	for !m.mu.TryRLock() {
		simhook.Yield(simhook.KBlocked, m.id)
	}
	simhook.LockHeld(1)
}

//go:norace
func (m *RWMutex) RUnlock() {
	m.register()
	m.mu.RUnlock()
	simhook.LockHeld(-1)
	simhook.Yield(simhook.KUnlock, m.id)
}

//go:norace
func (m *RWMutex) TryLock() bool {
	m.register()
	simhook.Yield(simhook.KLock, m.id)
	ok := m.mu.TryLock()
	if ok {
		simhook.LockHeld(1)
	}
	return ok
}

//go:norace
func (m *RWMutex) TryRLock() bool {
	m.register()
	simhook.Yield(simhook.KLock, m.id)
	ok := m.mu.TryRLock()
	if ok {
		simhook.LockHeld(1)
	}
	return ok
}

func (m *RWMutex) RLocker() Locker { return (*rlocker)(m) }

type rlocker RWMutex

func (r *rlocker) Lock()   { (*RWMutex)(r).RLock() }
func (r *rlocker) Unlock() { (*RWMutex)(r).RUnlock() }

// Once is rebuilt on the shim Mutex: the standard Once holds a real mutex
// while f runs, which a parked simulated task must never do.
type Once struct {
	done atomic.Uint32
	m    Mutex
	reg  uint32
}

//go:norace
func (o *Once) Do(f func()) {
	if o.reg == 0 {
		o.reg = 1
		simhook.Register(func() { o.done.Store(0); o.reg = 0 })
	}
	simhook.Yield(simhook.KOnce, o.m.id)
	if o.done.Load() == 0 {
		o.m.Lock()
		defer o.m.Unlock()
		if o.done.Load() == 0 {
			defer o.done.Store(1)
			f()
		}
	}
}

func OnceFunc(f func()) func() {
	var once Once
	return func() { once.Do(f) }
}

func OnceValue[T any](f func() T) func() T {
	var once Once
	var v T
	return func() T { once.Do(func() { v = f() }); return v }
}

func OnceValues[T1, T2 any](f func() (T1, T2)) func() (T1, T2) {
	var once Once
	var v1 T1
	var v2 T2
	return func() (T1, T2) { once.Do(func() { v1, v2 = f() }); return v1, v2 }
}

// Map: scheduling points around the real sync.Map.
type Map struct {
	m   stdsync.Map
	reg uint32
	id  int
}

//go:norace
func (m *Map) y(kind int) {
	if m.reg == 0 {
		m.reg = 1
		m.id = simhook.Register(func() { m.m = stdsync.Map{}; m.reg = 0 })
	}
	simhook.Yield(kind, m.id)
}

func (m *Map) Load(key any) (any, bool)    { m.y(simhook.KLoad); return m.m.Load(key) }
func (m *Map) Store(key, value any)        { m.y(simhook.KStore); m.m.Store(key, value) }
func (m *Map) Delete(key any)              { m.y(simhook.KStore); m.m.Delete(key) }
func (m *Map) Range(f func(k, v any) bool) { m.y(simhook.KLoad); m.m.Range(f) }
func (m *Map) LoadOrStore(key, value any) (any, bool) {
	m.y(simhook.KCAS)
	return m.m.LoadOrStore(key, value)
}
func (m *Map) LoadAndDelete(key any) (any, bool) { m.y(simhook.KCAS); return m.m.LoadAndDelete(key) }
func (m *Map) Swap(key, value any) (any, bool)   { m.y(simhook.KSwap); return m.m.Swap(key, value) }
func (m *Map) CompareAndSwap(key, old, new any) bool {
	m.y(simhook.KCAS)
	return m.m.CompareAndSwap(key, old, new)
}
func (m *Map) CompareAndDelete(key, old any) bool {
	m.y(simhook.KCAS)
	return m.m.CompareAndDelete(key, old)
}
