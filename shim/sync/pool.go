package sync

import (
	"reflect"
	"unsafe"

	"github.com/segmentio/encoding/verifshim/simhook"
)

// Pool is the simulated sync.Pool.  Every legal behaviour of the real pool is
// selectable per pool and per run (LIFO — maximal reuse, the adversarial
// default —, FIFO, random pick, never reuse, drop on put); per-P locality,
// which no correct program may rely on, is not modelled.  Monitors: double
// put, poison on put.  The put→get happens-before edge of the real pool is
// reproduced for the race detector with ReleaseMerge/Acquire on a per-item
// token.
type Pool struct {
	New func() any

	items []poolItem
	reg   uint32
	id    int
	puts  int
}

type poolItem struct {
	x     any
	tok   *byte
	owner int
}

const PoisonByte = 0xDB

//go:norace
func (p *Pool) register() {
	if p.reg == 0 {
		p.reg = 1
		p.id = simhook.Register(func() { p.items = nil; p.puts = 0; p.reg = 0 })
	}
}

//go:norace
func (p *Pool) Get() any {
	p.register()
	simhook.Yield(simhook.KPoolGet, p.id)
	policy, _ := simhook.PoolPolicy(p.id)
	n := len(p.items)
	if n == 0 || policy == simhook.PoolNeverReuse {
		simhook.Probe(simhook.PPoolNew)
		if p.New != nil {
			return p.New()
		}
		return nil
	}
	i := n - 1
	switch policy {
	case simhook.PoolFIFO:
		i = 0
	case simhook.PoolRandom:
		if simhook.Choose != nil {
			i = simhook.Choose(n)
		}
	}
	it := p.items[i]
	// no copy()/append() on this memory: the runtime instruments those itself
	// even inside //go:norace functions
	for j := i; j < n-1; j++ {
		p.items[j] = p.items[j+1]
	}
	p.items[n-1] = poolItem{}
	p.items = p.items[:n-1]
	simhook.RaceAcquire(unsafe.Pointer(it.tok))
	simhook.Probe(simhook.PPoolReuse)
	if it.owner != simhook.TaskID() && it.owner >= 0 && simhook.TaskID() >= 0 {
		simhook.Probe(simhook.PPoolCrossTask)
	}
	return it.x
}

//go:norace
func (p *Pool) Put(x any) {
	p.register()
	simhook.Yield(simhook.KPoolPut, p.id)
	if x == nil {
		return
	}
	for i := range p.items {
		if sameObject(p.items[i].x, x) {
			simhook.Violate("pool-double-put: an object was put into a sync.Pool while it was already free in that pool (" + typeName(x) + ")")
			return
		}
	}
	poison(x)
	p.puts++
	policy, dropDen := simhook.PoolPolicy(p.id)
	if policy == simhook.PoolDropOnPut && dropDen > 0 && p.puts%dropDen == 0 {
		return
	}
	tok := new(byte)
	simhook.RaceReleaseMerge(unsafe.Pointer(tok))
	if len(p.items) == cap(p.items) {
		grown := make([]poolItem, len(p.items), 2*cap(p.items)+4)
		for j := range p.items {
			grown[j] = p.items[j]
		}
		p.items = grown
	}
	p.items = p.items[:len(p.items)+1]
	p.items[len(p.items)-1] = poolItem{x: x, tok: tok, owner: simhook.TaskID()}
}

type eface struct {
	typ, ptr unsafe.Pointer
}

//go:norace
func sameObject(a, b any) bool {
	ea, eb := (*eface)(unsafe.Pointer(&a)), (*eface)(unsafe.Pointer(&b))
	return ea.typ == eb.typ && ea.ptr == eb.ptr
}

func typeName(x any) string { return reflect.TypeOf(x).String() }

// poison overwrites, up to its capacity, every []byte directly reachable from
// a pooled pointer-to-struct or pointer-to-slice, so that a stale alias kept
// by a previous user reads garbage.
//
//go:norace
func poison(x any) {
	rv := reflect.ValueOf(x)
	if rv.Kind() != reflect.Ptr || rv.IsNil() {
		return
	}
	e := rv.Elem()
	switch e.Kind() {
	case reflect.Slice:
		poisonSlice(e)
	case reflect.Struct:
		for i := 0; i < e.NumField(); i++ {
			if f := e.Field(i); f.Kind() == reflect.Slice {
				poisonSlice(f)
			}
		}
	}
}

//go:norace
func poisonSlice(v reflect.Value) {
	if v.Type().Elem().Kind() != reflect.Uint8 || v.Cap() == 0 {
		return
	}
	base := v.UnsafePointer()
	b := unsafe.Slice((*byte)(base), v.Cap())
	for i := range b {
		b[i] = PoisonByte
	}
}
