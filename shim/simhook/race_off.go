//go:build !race

package simhook

import "unsafe"

const RaceBuild = false

func raceDisable()                      {}
func raceEnable()                       {}
func RaceAcquire(p unsafe.Pointer)      {}
func RaceReleaseMerge(p unsafe.Pointer) {}
