//go:build race

package simhook

import (
	"runtime"
	"unsafe"
)

// RaceBuild reports whether the race detector is compiled in.
const RaceBuild = true

//go:norace
func raceDisable() { runtime.RaceDisable() }

//go:norace
func raceEnable() { runtime.RaceEnable() }

//go:norace
func RaceAcquire(p unsafe.Pointer) { runtime.RaceAcquire(p) }

//go:norace
func RaceReleaseMerge(p unsafe.Pointer) { runtime.RaceReleaseMerge(p) }
