// Package simhook is the seam between the import-redirected library and the
// simulator: a token-passing scheduler over real goroutines of which exactly
// one runs at a time, the registry that returns every shim object to its zero
// state, and the counters behind the reach probes.
//
// Everything on the scheduling path is //go:norace and self-contained (fixed
// arrays, no fmt, no math/rand): the race detector must see only the
// happens-before edges the *library* creates.  The hand-off between tasks is
// wrapped in runtime.RaceDisable/RaceEnable so that the channel operations of
// the scheduler itself do not order the tasks' memory accesses.
package simhook

import (
	"os"
	"runtime/debug"
	"sync"
)

const (
	MaxTasks  = 8
	MaxPoints = 40000
	MaxObjs   = 256
)

// Kinds of scheduling points.
const (
	KOp = iota // workload operation boundary
	KLoad
	KStore
	KSwap
	KCAS
	KAdd
	KLock
	KUnlock
	KBlocked
	KPoolGet
	KPoolPut
	KOnce
	KMap
	NumKinds
)

// Scheduling strategies.
const (
	ModeRandom = iota
	ModePCT
	ModeLoadBiased
	NumModes
)

// Probe indices.
const (
	PSwitch                 = iota
	PStoreAfterForeignStore // a task stored to a cache after another task stored since its own load: the lost-update window
	PBothLoadedBeforeStore  // two tasks loaded the same object before either stored
	PLoadAfterForeignStore  // a task loaded an object last stored by another task: publication observed
	PPoolCrossTask          // a pool handed a task an object put by another task
	PPoolReuse
	PPoolNew
	PMutexContended
	PPreemptInsideLock // a task was switched out while holding a shim mutex
	NumProbes
)

var ProbeNames = [NumProbes]string{"context-switches", "store-after-foreign-store(lost-update-window)", "both-loaded-before-either-stored", "load-after-foreign-store(publication)", "pool-cross-task-handoff", "pool-reuse", "pool-new", "mutex-contended", "preempted-while-holding-mutex"}

type task struct {
	wake       chan struct{}
	done       bool
	prio       int
	panicked   bool
	PanicVal   any
	PanicStack string
	held       int // shim mutexes held
	yields     int
}

type objState struct {
	storeSeq   int // number of stores so far
	lastStorer int // task of the last store (-1 none)
	seen       [MaxTasks]int
	loadedOpen [MaxTasks]bool // task loaded since the last store
}

// Config is drawn from the tape by the harness before each concurrent phase.
type Config struct {
	Mode        int
	SwitchDen   int // random modes: switch with probability 1/SwitchDen at ordinary points
	Depth       int // PCT: number of priority change points + 1
	EstSteps    int // PCT: estimated number of scheduling points
	PoolPolicy  [32]uint8
	PoolDropDen int // PoolDropOnPut: drop one put in PoolDropDen
}

// Pool policies.
const (
	PoolLIFO = iota
	PoolFIFO
	PoolRandom
	PoolNeverReuse
	PoolDropOnPut
	NumPoolPolicies
)

type sched struct {
	active   bool
	n        int
	tasks    [MaxTasks]task
	cur      int
	points   int
	switches int
	cfg      Config
	change   [4]int
	lowPrio  int
	ctl      chan struct{}
	trace    uint64
	blocked  int
	overrun  bool
	objs     [MaxObjs]objState
	Probes   [NumProbes]int64
	// Violations detected inside the shim (double put, …): first one wins.
	Violation string
}

var s sched

// Choose is the only source of scheduling decisions: the harness points it at
// the run's choice tape.  It must be //go:norace all the way down.
var Choose func(n int) int

// TaskID is the task that currently holds the token, or -1 outside a
// concurrent phase.
//
//go:norace
func TaskID() int {
	if !s.active {
		return -1
	}
	return s.cur
}

//go:norace
func Active() bool { return s.active }

//go:norace
func fold(h uint64, a, b, c int) uint64 {
	h ^= uint64(a)<<40 ^ uint64(b)<<20 ^ uint64(c)
	h *= 1099511628211
	return h
}

// Yield is a scheduling point, executed by the token holder.
//
//go:norace
func Yield(kind int, obj int) {
	if !s.active {
		return
	}
	me := s.cur
	s.points++
	s.tasks[me].yields++
	s.trace = fold(s.trace, me, kind, obj)
	track(me, kind, obj)
	if s.points > MaxPoints {
		s.overrun = true
		if kind != KBlocked {
			return
		}
	}
	next := choose(me, kind)
	if next == me {
		return
	}
	s.switches++
	s.Probes[PSwitch]++
	if s.tasks[me].held > 0 {
		s.Probes[PPreemptInsideLock]++
	}
	s.cur = next
	raceDisable()
	s.tasks[next].wake <- struct{}{}
	<-s.tasks[me].wake
	raceEnable()
}

//go:norace
func track(me, kind, obj int) {
	if obj < 0 || obj >= MaxObjs {
		return
	}
	o := &s.objs[obj]
	switch kind {
	case KLoad:
		if o.lastStorer >= 0 && o.lastStorer != me && o.seen[me] != o.storeSeq {
			s.Probes[PLoadAfterForeignStore]++
		}
		o.seen[me] = o.storeSeq
		for t := 0; t < s.n; t++ {
			if t != me && o.loadedOpen[t] {
				s.Probes[PBothLoadedBeforeStore]++
				break
			}
		}
		o.loadedOpen[me] = true
	case KStore, KSwap, KCAS:
		if o.seen[me] != o.storeSeq && o.lastStorer != me && o.lastStorer >= 0 {
			s.Probes[PStoreAfterForeignStore]++
		}
		o.storeSeq++
		o.lastStorer = me
		o.seen[me] = o.storeSeq
		for t := 0; t < s.n; t++ {
			o.loadedOpen[t] = false
		}
	case KBlocked:
		s.Probes[PMutexContended]++
	}
}

//go:norace
func runnableOthers(me int, out *[MaxTasks]int) int {
	k := 0
	for t := 0; t < s.n; t++ {
		if t != me && !s.tasks[t].done {
			out[k] = t
			k++
		}
	}
	return k
}

//go:norace
func choose(me, kind int) int {
	var others [MaxTasks]int
	k := runnableOthers(me, &others)
	if kind == KBlocked {
		s.blocked++
		if k == 0 || s.blocked > 200000 {
			deadlock()
		}
		// progress needs the holder to run: pick any other task, whatever the strategy
		return others[Choose(k)]
	}
	s.blocked = 0
	if k == 0 {
		return me
	}
	switch s.cfg.Mode {
	case ModePCT:
		for i := 0; i < s.cfg.Depth-1 && i < len(s.change); i++ {
			if s.change[i] == s.points {
				s.lowPrio--
				s.tasks[me].prio = s.lowPrio
			}
		}
		best := me
		for i := 0; i < k; i++ {
			if s.tasks[others[i]].prio > s.tasks[best].prio {
				best = others[i]
			}
		}
		return best
	case ModeLoadBiased:
		den := 12
		if kind == KLoad || kind == KPoolGet || kind == KLock {
			den = 2
		}
		if Choose(den) < den-1 {
			return me
		}
		return others[Choose(k)]
	default:
		den := s.cfg.SwitchDen
		if den < 2 {
			den = 2
		}
		if Choose(den) < den-1 {
			return me
		}
		return others[Choose(k)]
	}
}

//go:norace
func pickAfterFinish(me int) int {
	var others [MaxTasks]int
	k := runnableOthers(me, &others)
	if k == 0 {
		return -1
	}
	if s.cfg.Mode == ModePCT {
		best := others[0]
		for i := 1; i < k; i++ {
			if s.tasks[others[i]].prio > s.tasks[best].prio {
				best = others[i]
			}
		}
		return best
	}
	return others[Choose(k)]
}

//go:norace
func deadlock() {
	for t := 0; t < s.n; t++ {
		if s.tasks[t].panicked {
			os.Stderr.WriteString("panic: (in a simulated task, followed by a deadlock of the remaining tasks)\n")
			os.Stderr.WriteString(s.tasks[t].PanicStack)
			os.Exit(69)
		}
	}
	os.Stderr.WriteString("DEADLOCK: every unfinished simulated task is blocked on a lock\n")
	os.Exit(68)
}

// Result of one concurrent phase.
type Result struct {
	Points, Switches int
	Trace            uint64
	Overrun          bool
	Panics           [MaxTasks]string // "" = none; otherwise value + stack
	PanicVals        [MaxTasks]any
	Yields           [MaxTasks]int
}

// Run executes fn(0) … fn(n-1) as simulated tasks under cfg and returns when
// all have finished.  It is called by the controller goroutine, which is not a
// task.  Task start inherits the controller's happens-before (go statement);
// task end is joined through a real WaitGroup.
//
//go:norace
func Run(n int, cfg Config, fn func(task int)) Result {
	if n > MaxTasks {
		n = MaxTasks
	}
	probes := s.Probes
	viol := s.Violation
	s = sched{n: n, cfg: cfg, ctl: make(chan struct{}, 1), trace: 14695981039346656037}
	s.Probes = probes
	s.Violation = viol
	for i := range s.objs {
		s.objs[i].lastStorer = -1
	}
	// PCT priorities and change points
	for t := 0; t < n; t++ {
		s.tasks[t].prio = 0
	}
	if cfg.Mode == ModePCT {
		// random permutation of priorities n..1
		var perm [MaxTasks]int
		for t := 0; t < n; t++ {
			perm[t] = t
		}
		for t := n - 1; t > 0; t-- {
			j := Choose(t + 1)
			perm[t], perm[j] = perm[j], perm[t]
		}
		for t := 0; t < n; t++ {
			s.tasks[perm[t]].prio = n - t
		}
		est := cfg.EstSteps
		if est < 4 {
			est = 4
		}
		for i := 0; i < cfg.Depth-1 && i < len(s.change); i++ {
			s.change[i] = 1 + Choose(est)
		}
	}
	var wg sync.WaitGroup
	for t := 0; t < n; t++ {
		s.tasks[t].wake = make(chan struct{}, 1)
		wg.Add(1)
		go taskMain(t, fn, &wg)
	}
	first := 0
	if cfg.Mode == ModePCT {
		for t := 1; t < n; t++ {
			if s.tasks[t].prio > s.tasks[first].prio {
				first = t
			}
		}
	} else {
		first = Choose(n)
	}
	s.cur = first
	s.active = true
	raceDisable()
	s.tasks[first].wake <- struct{}{}
	<-s.ctl
	raceEnable()
	s.active = false
	wg.Wait()
	var res Result
	res.Points, res.Switches, res.Trace, res.Overrun = s.points, s.switches, s.trace, s.overrun
	for t := 0; t < n; t++ {
		res.Yields[t] = s.tasks[t].yields
		if s.tasks[t].panicked {
			res.Panics[t] = s.tasks[t].PanicStack
			res.PanicVals[t] = s.tasks[t].PanicVal
		}
	}
	return res
}

//go:norace
func taskMain(t int, fn func(int), wg *sync.WaitGroup) {
	raceDisable()
	<-s.tasks[t].wake
	raceEnable()
	runTask(t, fn)
	s.tasks[t].done = true
	wg.Done()
	next := pickAfterFinish(t)
	raceDisable()
	if next < 0 {
		s.ctl <- struct{}{}
	} else {
		s.cur = next
		s.tasks[next].wake <- struct{}{}
	}
	raceEnable()
}

//go:norace
func runTask(t int, fn func(int)) {
	defer func() {
		if e := recover(); e != nil {
			s.tasks[t].panicked = true
			s.tasks[t].PanicVal = e
			s.tasks[t].PanicStack = panicString(e) + "\n" + string(debug.Stack())
		}
	}()
	fn(t)
}

func panicString(e any) string {
	switch x := e.(type) {
	case error:
		return "panic: " + x.Error()
	case string:
		return "panic: " + x
	case interface{ String() string }:
		return "panic: " + x.String()
	}
	return "panic: (value of unprintable type)"
}

// LockHeld adjusts the number of shim mutexes the current task holds.
//
//go:norace
func LockHeld(delta int) {
	if s.active {
		s.tasks[s.cur].held += delta
	}
}

// ---- registry ---------------------------------------------------------------

type regEntry struct {
	reset func()
}

var registry []regEntry
var nextObj int

// Register records a shim object for ResetAll and returns its id for this
// run.  reset must return the object to its zero state *and* mark it
// unregistered.
//
//go:norace
func Register(reset func()) int {
	if len(registry) == cap(registry) {
		grown := make([]regEntry, len(registry), 2*cap(registry)+16)
		for j := range registry {
			grown[j] = registry[j]
		}
		registry = grown
	}
	registry = registry[:len(registry)+1]
	registry[len(registry)-1] = regEntry{reset}
	id := nextObj
	nextObj++
	return id % MaxObjs
}

// ResetAll returns every registered shim object (caches, pools, mutexes, once)
// to its zero state and empties the registry: the next use is a first use.
// Called by the controller between runs, never during a concurrent phase.
//
//go:norace
func ResetAll() {
	for i := range registry {
		registry[i].reset()
		registry[i].reset = nil
	}
	registry = registry[:0]
	nextObj = 0
}

// Objects is the number of shim objects registered since the last ResetAll.
//
//go:norace
func Objects() int { return nextObj }

// ---- probes / violations ------------------------------------------------------

//go:norace
func Probe(i int) { s.Probes[i]++ }

//go:norace
func TakeProbes() [NumProbes]int64 {
	p := s.Probes
	s.Probes = [NumProbes]int64{}
	return p
}

//go:norace
func Violate(msg string) {
	if s.Violation == "" {
		s.Violation = msg
	}
}

//go:norace
func TakeViolation() string {
	v := s.Violation
	s.Violation = ""
	return v
}

//go:norace
func PoolPolicy(id int) (policy int, dropDen int) {
	return int(s.cfg.PoolPolicy[id%32]), s.cfg.PoolDropDen
}

// SetConfig installs cfg outside a concurrent phase too (pool policies apply to
// the run-alone reference executions as well).
//
//go:norace
func SetConfig(cfg Config) { s.cfg = cfg }
