// Package tape is the single source of every random decision of a simulated
// run: generated types, values, documents, operation scripts, chunk sizes,
// fault kinds and positions, pool policies and the seed of the scheduler.
//
// A tape is either *recording* (draws come from splitmix64 seeded with
// mix(VERIF_SEED, property, runIndex) and are remembered) or *replaying*
// (draws come from a recorded list; an exhausted list yields zeros).  Every
// draw is bounded, and on replay a recorded entry is reduced modulo the bound,
// so any edit of a recorded tape (deleting blocks, zeroing or halving entries)
// is still a valid tape: that is what makes minimisation generator-agnostic.
package tape

// Tape is not safe for concurrent use; the simulator never draws from two
// goroutines at once (only the token holder runs).
type Tape struct {
	state   uint64
	rec     []uint32
	replay  []uint32
	pos     int
	replays bool
	// Overrun counts draws made after a replayed tape was exhausted.
	Overrun int
	// mirror, when set, receives every draw as it is made (count in the first
	// four bytes, then little-endian uint32 draws): a memory-mapped file that
	// survives the death of the process, so that the tape of a run that ends in
	// a fatal error or a race report can be recovered and minimised.
	mirror []byte
}

// Mirror installs the mirror buffer.
func (t *Tape) Mirror(buf []byte) { t.mirror = buf }

//go:norace
func splitmix(x *uint64) uint64 {
	*x += 0x9e3779b97f4a7c15
	z := *x
	z = (z ^ (z >> 30)) * 0xbf58476d1ce4e5b9
	z = (z ^ (z >> 27)) * 0x94d049bb133111eb
	return z ^ (z >> 31)
}

// Mix derives the seed of one run from the global seed, a property tag and
// the run index.
func Mix(seed uint64, prop string, run uint64) uint64 {
	x := seed*0x9e3779b97f4a7c15 + 0x1234567
	h := splitmix(&x)
	for i := 0; i < len(prop); i++ {
		x ^= uint64(prop[i]) + h
		h = splitmix(&x)
	}
	x ^= run * 0xd1342543de82ef95
	return splitmix(&x)
}

// New returns a recording tape.
func New(seed uint64) *Tape { return &Tape{state: seed} }

// Replay returns a tape that replays rec.
func Replay(rec []uint32) *Tape { return &Tape{replay: rec, replays: true} }

// Record returns the draws made so far (bounded values).
//
//go:norace
func (t *Tape) Record() []uint32 {
	if t.replays {
		// draws past the end of a replayed tape are zeros; trailing zeros carry
		// no information, so the canonical form drops them.
		n := len(t.rec)
		for n > 0 && t.rec[n-1] == 0 {
			n--
		}
		return t.rec[:n]
	}
	return t.rec
}

// Len is the number of draws made so far.
//
//go:norace
func (t *Tape) Len() int { return len(t.rec) }

// Intn draws an integer in [0, n).  n <= 0 yields 0 without consuming a draw.
//
//go:norace
func (t *Tape) Intn(n int) int {
	if n <= 1 {
		return 0
	}
	var v uint32
	if t.replays {
		if t.pos < len(t.replay) {
			v = t.replay[t.pos] % uint32(n)
			t.pos++
		} else {
			t.Overrun++
			v = 0
		}
	} else {
		v = uint32(splitmix(&t.state)>>11) % uint32(n)
	}
	// manual growth: append()/copy() are instrumented by the runtime itself even
	// inside //go:norace functions, and the scheduler draws from this tape on
	// behalf of different simulated goroutines.
	if len(t.rec) == cap(t.rec) {
		grown := make([]uint32, len(t.rec), 2*cap(t.rec)+64)
		for i := range t.rec {
			grown[i] = t.rec[i]
		}
		t.rec = grown
	}
	t.rec = t.rec[:len(t.rec)+1]
	t.rec[len(t.rec)-1] = v
	if m := t.mirror; m != nil {
		n := len(t.rec)
		if 4+4*n <= len(m) {
			o := 4 * n
			m[o], m[o+1], m[o+2], m[o+3] = byte(v), byte(v>>8), byte(v>>16), byte(v>>24)
			m[0], m[1], m[2], m[3] = byte(n), byte(n>>8), byte(n>>16), byte(n>>24)
		}
	}
	return int(v)
}

// Range draws an integer in [lo, hi] (inclusive).
//
//go:norace
func (t *Tape) Range(lo, hi int) int {
	if hi <= lo {
		return lo
	}
	return lo + t.Intn(hi-lo+1)
}

// Bool draws a fair coin; zero (the shrunk value) is false.
//
//go:norace
func (t *Tape) Bool() bool { return t.Intn(2) == 1 }

// Chance is true with probability about num/den; zero (shrunk) is false.
//
//go:norace
func (t *Tape) Chance(num, den int) bool {
	return t.Intn(den) >= den-num
}

// Pick draws an index into a list of n weights and returns it; index 0 is the
// shrunk choice, so put the simplest alternative first.
//
//go:norace
func (t *Tape) Pick(weights ...int) int {
	sum := 0
	for _, w := range weights {
		sum += w
	}
	v := t.Intn(sum)
	for i, w := range weights {
		if v < w {
			return i
		}
		v -= w
	}
	return 0
}

// Uint64 draws 64 bits (three draws).
//
//go:norace
func (t *Tape) Uint64() uint64 {
	a := uint64(t.Intn(1 << 22))
	b := uint64(t.Intn(1 << 21))
	c := uint64(t.Intn(1 << 21))
	return a<<42 | b<<21 | c
}

// Sub returns the seed for an independent PRNG (used by the scheduler, which
// must not call into this package from //go:norace code).
//
//go:norace
func (t *Tape) Sub() uint64 { return t.Uint64() | 1 }
