package ref

import (
	"encoding/binary"
	"errors"
)

// Thrift type codes as carried by the library's public thrift.Type enum (the
// compact protocol's type ids; the library's binary protocol carries the same
// codes).
const (
	TStop   = 0
	TTrue   = 1
	TFalse  = 2 // also BOOL
	TI8     = 3
	TI16    = 4
	TI32    = 5
	TI64    = 6
	TDouble = 7
	TBinary = 8
	TList   = 9
	TSet    = 10
	TMap    = 11
	TStruct = 12
)

// TVal is a schema-less thrift value (both protocols are self-describing).
type TVal struct {
	Type   int8
	I      int64  // bool (0/1), i8..i64
	Raw8   []byte // double: the 8 bytes as found
	Bin    []byte
	Elem   int8 // list/set element type
	Key    int8 // map key type
	Val    int8 // map value type
	Elems  []TVal
	Keys   []TVal
	Vals   []TVal
	Fields []TField
}

type TField struct {
	ID  int16
	Val TVal
}

// TSite is the location of a length / element count in an encoding.
type TSite struct {
	Off, N int    // bytes [Off, Off+N) hold the size
	Kind   string // "binary-length" | "list-size" | "set-size" | "map-size"
	Short  bool   // compact list/set header with the size in the high nibble (Off is the header byte)
	Elem   int8   // compact short form: element type to keep
	Value  int64
}

// TBoundary is a place where a field may be inserted: the offset of a field
// header (or of the STOP byte) of some struct level.
type TBoundary struct {
	Level int
	Index int // position among the fields of that level
}

var ErrThrift = errors.New("ref: malformed thrift")

type tparser struct {
	b       []byte
	off     int
	compact bool
	stop3   bool // binary dialect in which STOP is written as a full field header (type 0, id 0)
	sites   []TSite
	depth   int
}

func (p *tparser) need(n int) bool { return p.off+n <= len(p.b) && n >= 0 }

func (p *tparser) byte1() (byte, error) {
	if !p.need(1) {
		return 0, ErrThrift
	}
	c := p.b[p.off]
	p.off++
	return c, nil
}

func (p *tparser) uvarint() (uint64, int, error) {
	v, n := binary.Uvarint(p.b[p.off:])
	if n <= 0 {
		return 0, 0, ErrThrift
	}
	p.off += n
	return v, n, nil
}

func (p *tparser) zigzag() (int64, error) {
	v, n := binary.Varint(p.b[p.off:])
	if n <= 0 {
		return 0, ErrThrift
	}
	p.off += n
	return v, nil
}

func (p *tparser) size(kind string) (int, error) {
	start := p.off
	if p.compact {
		v, n, err := p.uvarint()
		if err != nil || v > 1<<31-1 {
			return 0, ErrThrift
		}
		p.sites = append(p.sites, TSite{Off: start, N: n, Kind: kind, Value: int64(v)})
		return int(v), nil
	}
	if !p.need(4) {
		return 0, ErrThrift
	}
	v := int32(binary.BigEndian.Uint32(p.b[p.off:]))
	p.off += 4
	if v < 0 {
		return 0, ErrThrift
	}
	p.sites = append(p.sites, TSite{Off: start, N: 4, Kind: kind, Value: int64(v)})
	return int(v), nil
}

func (p *tparser) value(t int8) (TVal, error) {
	v := TVal{Type: t}
	p.depth++
	defer func() { p.depth-- }()
	if p.depth > 64 {
		return v, ErrThrift
	}
	switch t {
	case TTrue, TFalse:
		c, err := p.byte1()
		if err != nil {
			return v, err
		}
		if c != 0 {
			v.I = 1
		}
	case TI8:
		c, err := p.byte1()
		if err != nil {
			return v, err
		}
		v.I = int64(int8(c))
	case TI16, TI32, TI64:
		if p.compact {
			x, err := p.zigzag()
			if err != nil {
				return v, err
			}
			v.I = x
		} else {
			n := map[int8]int{TI16: 2, TI32: 4, TI64: 8}[t]
			if !p.need(n) {
				return v, ErrThrift
			}
			switch n {
			case 2:
				v.I = int64(int16(binary.BigEndian.Uint16(p.b[p.off:])))
			case 4:
				v.I = int64(int32(binary.BigEndian.Uint32(p.b[p.off:])))
			default:
				v.I = int64(binary.BigEndian.Uint64(p.b[p.off:]))
			}
			p.off += n
		}
	case TDouble:
		if !p.need(8) {
			return v, ErrThrift
		}
		v.Raw8 = append([]byte(nil), p.b[p.off:p.off+8]...)
		p.off += 8
	case TBinary:
		n, err := p.size("binary-length")
		if err != nil {
			return v, err
		}
		if !p.need(n) {
			return v, ErrThrift
		}
		v.Bin = append([]byte{}, p.b[p.off:p.off+n]...)
		p.off += n
	case TList, TSet:
		kind := "list-size"
		if t == TSet {
			kind = "set-size"
		}
		var n int
		if p.compact {
			start := p.off
			c, err := p.byte1()
			if err != nil {
				return v, err
			}
			v.Elem = int8(c & 0xF)
			if c>>4 != 0xF {
				n = int(c >> 4)
				p.sites = append(p.sites, TSite{Off: start, N: 1, Kind: kind, Short: true, Elem: v.Elem, Value: int64(n)})
			} else {
				n, err = p.size(kind)
				if err != nil {
					return v, err
				}
			}
		} else {
			c, err := p.byte1()
			if err != nil {
				return v, err
			}
			v.Elem = int8(c)
			n, err = p.size(kind)
			if err != nil {
				return v, err
			}
		}
		if n > len(p.b) {
			return v, ErrThrift
		}
		v.Elems = make([]TVal, 0, n)
		for i := 0; i < n; i++ {
			e, err := p.value(v.Elem)
			if err != nil {
				return v, err
			}
			v.Elems = append(v.Elems, e)
		}
	case TMap:
		var n int
		var err error
		if p.compact {
			n, err = p.size("map-size")
			if err != nil {
				return v, err
			}
			if n > 0 {
				c, err := p.byte1()
				if err != nil {
					return v, err
				}
				v.Key, v.Val = int8(c>>4), int8(c&0xF)
			}
		} else {
			k, err := p.byte1()
			if err != nil {
				return v, err
			}
			x, err := p.byte1()
			if err != nil {
				return v, err
			}
			v.Key, v.Val = int8(k), int8(x)
			n, err = p.size("map-size")
			if err != nil {
				return v, err
			}
		}
		if n > len(p.b) {
			return v, ErrThrift
		}
		for i := 0; i < n; i++ {
			k, err := p.value(v.Key)
			if err != nil {
				return v, err
			}
			x, err := p.value(v.Val)
			if err != nil {
				return v, err
			}
			v.Keys = append(v.Keys, k)
			v.Vals = append(v.Vals, x)
		}
	case TStruct:
		last := int16(0)
		for {
			c, err := p.byte1()
			if err != nil {
				return v, err
			}
			if c == TStop {
				if p.stop3 {
					if !p.need(2) || p.b[p.off] != 0 || p.b[p.off+1] != 0 {
						return v, ErrThrift
					}
					p.off += 2
				}
				break
			}
			var f TField
			if p.compact {
				ft := int8(c & 0xF)
				if c>>4 != 0 {
					f.ID = last + int16(c>>4)
				} else {
					id, err := p.zigzag()
					if err != nil {
						return v, err
					}
					f.ID = int16(id)
				}
				if ft == TTrue || ft == TFalse {
					// bool fields are coalesced into the field header
					f.Val = TVal{Type: TFalse}
					if ft == TTrue {
						f.Val.I = 1
					}
				} else {
					f.Val, err = p.value(ft)
					if err != nil {
						return v, err
					}
				}
			} else {
				if !p.need(2) {
					return v, ErrThrift
				}
				f.ID = int16(binary.BigEndian.Uint16(p.b[p.off:]))
				p.off += 2
				f.Val, err = p.value(int8(c))
				if err != nil {
					return v, err
				}
			}
			last = f.ID
			v.Fields = append(v.Fields, f)
		}
	default:
		return v, ErrThrift
	}
	return v, nil
}

// ThriftParse parses b as one value of type t; it fails unless b is consumed
// exactly.  sites lists every length and element count.
func ThriftParse(b []byte, t int8, compact, stop3 bool) (TVal, []TSite, error) {
	p := &tparser{b: b, compact: compact, stop3: stop3 && !compact}
	v, err := p.value(t)
	if err != nil {
		return v, nil, err
	}
	if p.off != len(b) {
		return v, nil, ErrThrift
	}
	return v, p.sites, nil
}

func appendZigzag(b []byte, v int64) []byte {
	return binary.AppendVarint(b, v)
}

// ThriftAppend serialises v.
func ThriftAppend(b []byte, v *TVal, compact, stop3 bool) []byte {
	switch v.Type {
	case TTrue, TFalse:
		return append(b, byte(v.I))
	case TI8:
		return append(b, byte(v.I))
	case TI16, TI32, TI64:
		if compact {
			return appendZigzag(b, v.I)
		}
		switch v.Type {
		case TI16:
			return binary.BigEndian.AppendUint16(b, uint16(v.I))
		case TI32:
			return binary.BigEndian.AppendUint32(b, uint32(v.I))
		}
		return binary.BigEndian.AppendUint64(b, uint64(v.I))
	case TDouble:
		return append(b, v.Raw8...)
	case TBinary:
		b = appendSize(b, len(v.Bin), compact)
		return append(b, v.Bin...)
	case TList, TSet:
		if compact {
			if n := len(v.Elems); n < 15 {
				b = append(b, byte(n<<4)|byte(v.Elem))
			} else {
				b = append(b, 0xF0|byte(v.Elem))
				b = binary.AppendUvarint(b, uint64(n))
			}
		} else {
			b = append(b, byte(v.Elem))
			b = appendSize(b, len(v.Elems), false)
		}
		for i := range v.Elems {
			b = ThriftAppend(b, &v.Elems[i], compact, stop3)
		}
		return b
	case TMap:
		if compact {
			b = binary.AppendUvarint(b, uint64(len(v.Keys)))
			if len(v.Keys) > 0 {
				b = append(b, byte(v.Key)<<4|byte(v.Val))
			}
		} else {
			b = append(b, byte(v.Key), byte(v.Val))
			b = appendSize(b, len(v.Keys), false)
		}
		for i := range v.Keys {
			b = ThriftAppend(b, &v.Keys[i], compact, stop3)
			b = ThriftAppend(b, &v.Vals[i], compact, stop3)
		}
		return b
	case TStruct:
		last := int16(0)
		for i := range v.Fields {
			f := &v.Fields[i]
			ft := f.Val.Type
			if compact {
				if ft == TTrue || ft == TFalse {
					ft = TFalse
					if f.Val.I != 0 {
						ft = TTrue
					}
				}
				if d := int(f.ID) - int(last); d > 0 && d <= 15 {
					b = append(b, byte(d<<4)|byte(ft))
				} else {
					b = append(b, byte(ft))
					b = appendZigzag(b, int64(f.ID))
				}
				if ft != TTrue && ft != TFalse {
					b = ThriftAppend(b, &f.Val, true, false)
				}
			} else {
				if ft == TTrue {
					ft = TFalse
				}
				b = append(b, byte(ft))
				b = binary.BigEndian.AppendUint16(b, uint16(f.ID))
				b = ThriftAppend(b, &f.Val, false, stop3)
			}
			last = f.ID
		}
		if stop3 && !compact {
			return append(b, TStop, 0, 0)
		}
		return append(b, TStop)
	}
	return b
}

func appendSize(b []byte, n int, compact bool) []byte {
	if compact {
		return binary.AppendUvarint(b, uint64(n))
	}
	return binary.BigEndian.AppendUint32(b, uint32(n))
}

// StructLevels returns pointers to every struct value of the tree (root first).
func StructLevels(v *TVal, out *[]*TVal) {
	switch v.Type {
	case TStruct:
		*out = append(*out, v)
		for i := range v.Fields {
			StructLevels(&v.Fields[i].Val, out)
		}
	case TList, TSet:
		for i := range v.Elems {
			StructLevels(&v.Elems[i], out)
		}
	case TMap:
		for i := range v.Keys {
			StructLevels(&v.Keys[i], out)
			StructLevels(&v.Vals[i], out)
		}
	}
}
