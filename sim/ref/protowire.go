// Package ref holds small reference wire codecs written from the protobuf and
// thrift specifications, independent of the library under test.  They are used
// to locate field boundaries, to construct faults (unknown fields, inflated
// lengths, over-long varints) and to canonicalise encodings; they are never
// used to judge wire-format conformance (C12/C13 are not claimed).
package ref

import "sort"

// PRec is one protobuf record of a message.
type PRec struct {
	Num   uint64
	WT    int
	Start int // offset of the tag
	VOff  int // offset of the value (after tag; for varlen: after the length)
	LOff  int // varlen: offset of the length varint (== Start+taglen); else -1
	End   int // offset after the record
	Val   uint64
}

// Uvarint decodes a varint of at most 10 bytes; n == 0 means malformed/truncated.
func Uvarint(b []byte) (v uint64, n int) {
	var s uint
	for i := 0; i < len(b) && i < 10; i++ {
		c := b[i]
		if c < 0x80 {
			if i == 9 && c > 1 {
				return 0, 0
			}
			return v | uint64(c)<<s, i + 1
		}
		v |= uint64(c&0x7f) << s
		s += 7
	}
	return 0, 0
}

// AppendUvarint appends v with `pad` redundant continuation bytes (over-long form).
func AppendUvarint(b []byte, v uint64, pad int) []byte {
	for v >= 0x80 {
		b = append(b, byte(v)|0x80)
		v >>= 7
	}
	if pad == 0 {
		return append(b, byte(v))
	}
	b = append(b, byte(v)|0x80)
	for i := 1; i < pad; i++ {
		b = append(b, 0x80)
	}
	return append(b, 0)
}

// ParseMessage splits b into records; ok is false when b is not a well-formed
// sequence of records (groups are not supported and count as malformed).
func ParseMessage(b []byte) (recs []PRec, ok bool) {
	off := 0
	for off < len(b) {
		tag, n := Uvarint(b[off:])
		if n == 0 {
			return nil, false
		}
		r := PRec{Num: tag >> 3, WT: int(tag & 7), Start: off, LOff: -1}
		if r.Num == 0 {
			return nil, false
		}
		off += n
		switch r.WT {
		case 0:
			v, m := Uvarint(b[off:])
			if m == 0 {
				return nil, false
			}
			r.VOff, r.Val = off, v
			off += m
		case 1:
			if off+8 > len(b) {
				return nil, false
			}
			r.VOff = off
			off += 8
		case 5:
			if off+4 > len(b) {
				return nil, false
			}
			r.VOff = off
			off += 4
		case 2:
			l, m := Uvarint(b[off:])
			if m == 0 || l > uint64(len(b)-off-m) {
				return nil, false
			}
			r.LOff = off
			r.VOff = off + m
			r.Val = l
			off += m + int(l)
		default:
			return nil, false
		}
		r.End = off
		recs = append(recs, r)
	}
	return recs, true
}

// Canonical returns b with every maximal run of consecutive records of the
// same field number sorted bytewise, recursively inside every length-delimited
// payload that parses as a message.  Two encodings of one value that differ
// only in map iteration order have the same canonical form.
func Canonical(b []byte, depth int) []byte {
	recs, ok := ParseMessage(b)
	if !ok || depth > 20 || len(recs) == 0 {
		return b
	}
	parts := make([][]byte, len(recs))
	for i, r := range recs {
		if r.WT == 2 {
			inner := Canonical(b[r.VOff:r.End], depth+1)
			p := append([]byte(nil), b[r.Start:r.VOff]...)
			parts[i] = append(p, inner...)
		} else {
			parts[i] = b[r.Start:r.End]
		}
	}
	out := make([]byte, 0, len(b))
	for i := 0; i < len(recs); {
		j := i
		for j < len(recs) && recs[j].Num == recs[i].Num {
			j++
		}
		run := parts[i:j]
		sort.Slice(run, func(a, c int) bool { return string(run[a]) < string(run[c]) })
		for _, p := range run {
			out = append(out, p...)
		}
		i = j
	}
	return out
}
