package ref

import (
	"reflect"
	"strconv"
	"strings"
)

// PSchema describes, for one Go struct type used as a protobuf message, which
// field numbers are declared and which of them hold embedded messages — enough
// to walk an encoding down to every nesting level.  It is derived from the
// struct tags by the rules the protobuf struct tags themselves state (wire
// type, number, opt/rep), not from the library's codec tables.
type PSchema struct {
	Declared map[uint64]bool
	// Sub maps a field number to the schema of the embedded message it carries
	// (struct, pointer to struct, repeated struct, or map entry).
	Sub map[uint64]*PSchema
	// Opaque marks message-typed fields whose content is user-defined (Message /
	// custom implementations): never descended into.
	Max uint64
	// IsEntry marks the pseudo-message of a map entry (key = 1, value = 2).
	IsEntry bool
}

type schemaCache map[reflect.Type]*PSchema

// SchemaOf builds the schema of struct type t.  opaque reports types whose
// content must not be descended into.
func SchemaOf(t reflect.Type, opaque func(reflect.Type) bool) *PSchema {
	return schemaOf(t, opaque, schemaCache{})
}

func baseType(t reflect.Type) reflect.Type {
	for t.Kind() == reflect.Ptr {
		t = t.Elem()
	}
	return t
}

func schemaOf(t reflect.Type, opaque func(reflect.Type) bool, seen schemaCache) *PSchema {
	t = baseType(t)
	if s := seen[t]; s != nil {
		return s
	}
	s := &PSchema{Declared: map[uint64]bool{}, Sub: map[uint64]*PSchema{}}
	seen[t] = s
	if t.Kind() != reflect.Struct {
		return s
	}
	num := uint64(0)
	for i := 0; i < t.NumField(); i++ {
		f := t.Field(i)
		if f.PkgPath != "" {
			continue
		}
		num++
		n := num
		if tag, ok := f.Tag.Lookup("protobuf"); ok {
			parts := strings.Split(tag, ",")
			if len(parts) >= 2 {
				if v, err := strconv.ParseUint(parts[1], 10, 32); err == nil {
					n = v
				}
			}
		}
		s.Declared[n] = true
		if n > s.Max {
			s.Max = n
		}
		ft := baseType(f.Type)
		if opaque != nil && (opaque(ft) || opaque(f.Type)) {
			continue
		}
		switch ft.Kind() {
		case reflect.Struct:
			s.Sub[n] = schemaOf(ft, opaque, seen)
		case reflect.Slice:
			et := baseType(ft.Elem())
			if et.Kind() == reflect.Struct && !(opaque != nil && opaque(et)) {
				s.Sub[n] = schemaOf(et, opaque, seen)
			}
		case reflect.Map:
			entry := &PSchema{Declared: map[uint64]bool{1: true, 2: true}, Sub: map[uint64]*PSchema{}, Max: 2, IsEntry: true}
			kt, vt := baseType(ft.Key()), baseType(ft.Elem())
			if kt.Kind() == reflect.Struct && !(opaque != nil && opaque(kt)) {
				entry.Sub[1] = schemaOf(kt, opaque, seen)
			}
			if vt.Kind() == reflect.Struct && !(opaque != nil && opaque(vt)) {
				entry.Sub[2] = schemaOf(vt, opaque, seen)
			}
			s.Sub[n] = entry
		}
	}
	return s
}

// PNode is a parsed message level.
type PNode struct {
	Schema *PSchema
	Recs   []PNodeRec
}

type PNodeRec struct {
	Num   uint64
	WT    int
	Tag   []byte // raw tag bytes
	Val   []byte // raw value bytes for wire types 0, 1, 5; payload for 2 when Child == nil
	Child *PNode // embedded message (wire type 2 with a schema)
}

// ParseTree parses b as a message of schema s, descending into embedded
// messages; ok is false when b (or an embedded message the schema says must be
// one) is malformed.
func ParseTree(b []byte, s *PSchema, depth int) (*PNode, bool) {
	recs, ok := ParseMessage(b)
	if !ok || depth > 64 {
		return nil, false
	}
	n := &PNode{Schema: s}
	for _, r := range recs {
		nr := PNodeRec{Num: r.Num, WT: r.WT}
		if r.WT == 2 {
			nr.Tag = b[r.Start:r.LOff]
			payload := b[r.VOff:r.End]
			if sub := s.Sub[r.Num]; sub != nil {
				c, ok := ParseTree(payload, sub, depth+1)
				if !ok {
					return nil, false
				}
				nr.Child = c
			} else {
				nr.Val = payload
			}
		} else {
			nr.Tag = b[r.Start:r.VOff]
			nr.Val = b[r.VOff:r.End]
		}
		n.Recs = append(n.Recs, nr)
	}
	return n, true
}

// Bytes serialises the tree, recomputing every length prefix.
func (n *PNode) Bytes() []byte {
	var out []byte
	for i := range n.Recs {
		r := &n.Recs[i]
		out = append(out, r.Tag...)
		if r.WT == 2 {
			p := r.Val
			if r.Child != nil {
				p = r.Child.Bytes()
			}
			out = AppendUvarint(out, uint64(len(p)), 0)
			out = append(out, p...)
		} else {
			out = append(out, r.Val...)
		}
	}
	return out
}

// Levels returns every message level of the tree (the node itself first).
func (n *PNode) Levels() []*PNode {
	out := []*PNode{n}
	for i := range n.Recs {
		if c := n.Recs[i].Child; c != nil {
			out = append(out, c.Levels()...)
		}
	}
	return out
}

// InsertAt returns a copy of level n's record list with rec inserted at index i;
// the caller swaps it in, serialises the root, and swaps back.
func (n *PNode) InsertAt(i int, rec PNodeRec) []PNodeRec {
	out := make([]PNodeRec, 0, len(n.Recs)+1)
	out = append(out, n.Recs[:i]...)
	out = append(out, rec)
	return append(out, n.Recs[i:]...)
}

// Foreign builds a well-formed record of wire type wt and field number num
// with the given payload (varint value for 0; 8 / 4 bytes for 1 / 5; arbitrary
// bytes for 2).
func Foreign(num uint64, wt int, payload []byte, varint uint64) PNodeRec {
	r := PNodeRec{Num: num, WT: wt, Tag: AppendUvarint(nil, num<<3|uint64(wt), 0)}
	switch wt {
	case 0:
		r.Val = AppendUvarint(nil, varint, 0)
	default:
		r.Val = payload
	}
	return r
}

// Undeclared returns the first record, at any parsed level, whose field number
// the level's schema does not declare.
func (n *PNode) Undeclared() (num uint64, found bool) {
	for _, r := range n.Recs {
		if !n.Schema.Declared[r.Num] {
			return r.Num, true
		}
		if r.Child != nil {
			if num, found = r.Child.Undeclared(); found {
				return num, true
			}
		}
	}
	return 0, false
}
