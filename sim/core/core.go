// Package core defines what a simulated run is and how properties register.
package core

import (
	"fmt"
	"hash/fnv"
	"sort"
	"strings"

	"verifsim/tape"
)

// Violation is the first failure of an oracle in a run.
type Violation struct {
	// Class is the coarse violation class (e.g. "value-mismatch", "panic",
	// "data-race", "offset-window").  Minimisation preserves Class+Key.
	Class string `json:"class"`
	// Key is a narrow, stable classification of the witness, computed by the
	// oracle from the minimised facts of the failure (never from pointers or
	// implementation constants).  Known findings are matched on Class+Key.
	Key string `json:"key"`
	// Detail is the human-readable account of the first divergence.
	Detail string `json:"detail"`
}

// Run carries one simulated execution.
type Run struct {
	T    *tape.Tape
	Tier string
	// Index and Seed identify the run; neither may influence behaviour except
	// through T.
	Index uint64
	Seed  uint64

	V *Violation

	// NonTrivial is set by the property when at least one fault fired or one
	// context switch happened (its own rule); Sig is the signature of
	// (workload, schedule / fault script) used to count distinct runs.
	NonTrivial bool
	sig        uint64
	evh        uint64

	Faults map[string]int64 // fault kind -> times actually fired
	Probes map[string]int64 // reach probes
	Steps  int64            // logical steps (reader events, scheduling points)

	// Evaluations is the number of individual faulted executions inside the run
	// (fault_enumeration engines); 0 means 1.
	Evaluations int64

	// KnownHits counts divergences that matched an entry of the known-findings
	// file and were handled softly (counted, state resynchronised, run goes on).
	KnownHits map[string]int64

	// WantSample asks the property to fill Sample with a decoded, readable form
	// of the run (tasks, operations, reader script, faults).
	WantSample bool
	Sample     map[string]any

	// Scenario, when non-nil, is a literal, property-specific description of
	// the run to execute instead of generating one from the tape (witnesses of
	// known findings).  ScenarioOut is filled by the property on a violation.
	Scenario    []byte
	ScenarioOut any

	// Trace collects the event log when tracing is on (determinism self-test,
	// replay files).  Event hashing is always on.
	TraceOn bool
	Trace   []string
}

func NewRun(t *tape.Tape, tier string, idx, seed uint64) *Run {
	return &Run{T: t, Tier: tier, Index: idx, Seed: seed,
		Faults: map[string]int64{}, Probes: map[string]int64{},
		sig: 14695981039346656037, evh: 14695981039346656037}
}

func mixh(h uint64, s string) uint64 {
	for i := 0; i < len(s); i++ {
		h ^= uint64(s[i])
		h *= 1099511628211
	}
	h ^= 0xff
	h *= 1099511628211
	return h
}

// SigAdd folds a component of the workload / schedule / fault script into the
// distinctness signature.
func (r *Run) SigAdd(s string) { r.sig = mixh(r.sig, s) }

func (r *Run) SigAddBytes(b []byte) {
	h := fnv.New64a()
	h.Write(b)
	r.sig = mixh(r.sig, fmt.Sprintf("%x", h.Sum64()))
}

func (r *Run) Sig() uint64 { return r.sig }

// Event records one line of the event log.  It never draws from the tape and
// never reads a clock.
func (r *Run) Event(format string, a ...any) {
	if r.TraceOn {
		s := fmt.Sprintf(format, a...)
		r.evh = mixh(r.evh, s)
		if len(r.Trace) < 4000 {
			r.Trace = append(r.Trace, s)
		}
		return
	}
}

// EventHash is the hash of the event log (only meaningful with TraceOn).
func (r *Run) EventHash() uint64 { return r.evh }

func (r *Run) Fault(kind string)        { r.Faults[kind]++ }
func (r *Run) Probe(name string)        { r.Probes[name]++ }
func (r *Run) ProbeN(n string, k int64) { r.Probes[n] += k }

// Fail records the first violation of the run.
func (r *Run) Fail(class, key, format string, a ...any) {
	if r.V != nil {
		return
	}
	d := fmt.Sprintf(format, a...)
	if len(d) > 4000 {
		d = d[:4000] + "…"
	}
	r.V = &Violation{Class: class, Key: key, Detail: d}
}

func (r *Run) Failed() bool { return r.V != nil }

// KnownKeys holds "class|key" of the known (unrepaired) findings of the
// property being run; it is loaded from the committed known-findings file by
// the worker for sweeps and left empty for replays, which are always strict.
var KnownKeys = map[string]bool{}

// Known reports whether (class, key) is a listed known finding; if so the hit
// is counted and the property may resynchronise and continue instead of
// stopping the run at a divergence that is already on record.
func (r *Run) Known(class, key string) bool {
	ck := class + "|" + key
	if !KnownKeys[ck] {
		return false
	}
	if r.KnownHits == nil {
		r.KnownHits = map[string]int64{}
	}
	r.KnownHits[ck]++
	return true
}

// HarnessError aborts the worker with exit status 2: the harness itself is
// inconsistent (generator produced something its own reference rejects, …).
// It is never a VIOLATION and never a success.
type HarnessError struct{ Msg string }

func (e HarnessError) Error() string { return "harness error: " + e.Msg }

func Harness(format string, a ...any) {
	panic(HarnessError{fmt.Sprintf(format, a...)})
}

// Property describes one check.
type Property struct {
	ID     string
	Level  string // exploration | fault_enumeration
	Engine string
	Rule   string
	// Runs per tier.
	Quick, Thorough uint64
	// Run executes one simulated run.
	Run func(r *Run)
	// Setup is called once per worker process before the first run.
	Setup func()
	// FaultKinds / ProbeNames list everything the property can fire, so that
	// the evidence can show zeros.
	FaultKinds []string
	ProbeNames []string
	// Real / Model components for the evidence file.
	Real, Model []string
	Assumptions []string
	// Race tells the check script to build the worker with -race.
	Race bool
	// Sched tells the check script to instrument the copy (import redirection).
	Sched bool
}

var registry = map[string]*Property{}

func Register(p *Property) { registry[p.ID] = p }

func Lookup(id string) *Property { return registry[id] }

func IDs() []string {
	var ids []string
	for k := range registry {
		ids = append(ids, k)
	}
	sort.Strings(ids)
	return ids
}

// PanicInLibrary reports whether the innermost non-runtime, non-stdlib frame of
// a panic belongs to the library under test (a violation) rather than to the
// harness itself (exit 2, never a verdict).
func PanicInLibrary(stack string) bool {
	lines := strings.Split(stack, "\n")
	seenPanic := false
	for _, l := range lines {
		if strings.HasPrefix(l, "panic(") {
			seenPanic = true
			continue
		}
		if !seenPanic || strings.HasPrefix(l, "\t") {
			continue
		}
		if strings.HasPrefix(l, "verifsim/props.(*P") || strings.HasPrefix(l, "verifsim/props.(*Z") || strings.HasPrefix(l, "verifsim/props.P") || strings.HasPrefix(l, "verifsim/props.Z") {
			// methods of the zoo's user-defined message / marshaler types: user
			// code the library calls back into; what matters is who called it
			continue
		}
		if strings.HasPrefix(l, "github.com/segmentio/encoding/verifshim/") || strings.HasPrefix(l, "verifsim/") {
			return false
		}
		if strings.HasPrefix(l, "github.com/segmentio/") {
			return true
		}
	}
	return false
}
