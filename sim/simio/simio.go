// Package simio holds the simulated I/O seams: a scripted io.Reader and a
// guarded caller buffer.
package simio

import (
	"errors"
	"fmt"
	"io"
	"unsafe"
)

// ErrInjected is the custom reader failure; ErrWrapped wraps it, so that
// errors.Is(err, ErrInjected) is the test for both.
var ErrInjected = errors.New("simio: injected reader failure")
var ErrWrapped = fmt.Errorf("simio: transport: %w", ErrInjected)

// ErrWrapsEOF is a transport failure that wraps io.EOF without being io.EOF.
var ErrWrapsEOF = fmt.Errorf("simio: connection lost: %w", io.EOF)

// Event is one step of a reader script.
type Event struct {
	// N is the maximum number of data bytes this Read may return (further
	// bounded by len(p) and by the bytes left before the cut).  N == 0 with a
	// nil Err is a legal (0, nil) read.
	N int
}

// Reader delivers Data[:Cut] according to Script; when the script runs out it
// continues with the Tail chunk size.  After Cut bytes it returns Final
// (io.EOF for a clean end).
type Reader struct {
	Data   []byte
	Cut    int   // bytes delivered before the terminal condition
	Final  error // terminal error once Cut bytes were delivered
	Script []Event
	Tail   int // chunk size after the script ran out (>= 1)
	// FinalWithData delivers the terminal error together with the last data.
	FinalWithData bool

	Off    int // bytes handed out so far
	step   int
	sticky error
	// Counters.
	Reads, ZeroReads, DataWithErr, ShortByLen int
	Log                                       func(string)
	// OnBoundary is called with the running offset after every data-carrying
	// Read that is not the last one, i.e. at every place the stream was split.
	OnBoundary func(off int)
	// Batches records the offsets (first 64, excluding 0) at which the consumer
	// started a new read batch: a Read whose len(p) is not what was left of the
	// previous request.  Implementation-agnostic view of "refill happened here".
	Batches []int
	// Lent holds every distinct buffer the consumer passed to Read.
	Lent     [][]byte
	lastLeft int
}

func (r *Reader) logf(format string, a ...any) {
	if r.Log != nil {
		r.Log(fmt.Sprintf(format, a...))
	}
}

func (r *Reader) Read(p []byte) (int, error) {
	r.Reads++
	if r.sticky != nil {
		r.logf("read len=%d -> 0,%v (sticky)", len(p), r.sticky)
		return 0, r.sticky
	}
	if len(p) == 0 {
		return 0, nil
	}
	r.noteLent(p)
	if len(p) != r.lastLeft && r.Off > 0 && len(r.Batches) < 64 {
		r.Batches = append(r.Batches, r.Off)
	}
	want := r.Tail
	if r.step < len(r.Script) {
		want = r.Script[r.step].N
		r.step++
	}
	left := r.Cut - r.Off
	n := want
	if n > left {
		n = left
	}
	if n > len(p) {
		n = len(p)
		r.ShortByLen++
	}
	if n < 0 {
		n = 0
	}
	copy(p, r.Data[r.Off:r.Off+n])
	r.Off += n
	var err error
	if r.Off == r.Cut && n > 0 && r.FinalWithData {
		// the terminal condition (an "err at offset Cut" fault, or io.EOF) is
		// delivered together with the last data.
		err = r.Final
	}
	if err != nil {
		r.sticky = err
		if n > 0 {
			r.DataWithErr++
		}
	} else if n == 0 {
		if left == 0 {
			// nothing left and no error yet: deliver the terminal condition now.
			err = r.Final
			r.sticky = err
		} else {
			r.ZeroReads++
		}
	}
	r.lastLeft = len(p) - n
	if n > 0 && r.Off < r.Cut && r.OnBoundary != nil {
		r.OnBoundary(r.Off)
	}
	r.logf("read len=%d -> %d,%v off=%d", len(p), n, err, r.Off)
	return n, err
}

// Unread returns the bytes of Data[:Cut] not yet handed out.
// noteLent keeps the buffers the consumer passed to Read: holding them keeps
// their memory from being reused, so "this result points into a buffer that
// was handed to Read" is decidable later (LentContains).
func (r *Reader) noteLent(p []byte) {
	full := p[:cap(p)]
	base := uintptr(unsafe.Pointer(unsafe.SliceData(full)))
	for i, q := range r.Lent {
		qb := uintptr(unsafe.Pointer(unsafe.SliceData(q)))
		if base >= qb && base+uintptr(len(full)) <= qb+uintptr(len(q)) {
			return
		}
		if qb >= base && qb+uintptr(len(q)) <= base+uintptr(len(full)) {
			r.Lent[i] = full
			return
		}
	}
	if len(r.Lent) < 256 {
		r.Lent = append(r.Lent, full)
	}
}

// LentContains reports whether address a lies inside a buffer that was passed
// to Read (the consumer's own read buffer, present or past).
func (r *Reader) LentContains(a uintptr) bool {
	for _, q := range r.Lent {
		qb := uintptr(unsafe.Pointer(unsafe.SliceData(q)))
		if a >= qb && a < qb+uintptr(len(q)) {
			return true
		}
	}
	return false
}

func (r *Reader) Unread() []byte { return r.Data[r.Off:r.Cut] }

// ByteReader adds io.ByteReader to Reader (thrift branches on it).
type ByteReader struct{ *Reader }

func (b ByteReader) ReadByte() (byte, error) {
	var p [1]byte
	for i := 0; i < 100; i++ {
		n, err := b.Reader.Read(p[:])
		if n == 1 {
			// an io.ByteReader returns the byte *or* an error; the error stays
			// sticky for the next call.
			return p[0], nil
		}
		if err != nil {
			return 0, err
		}
	}
	return 0, io.ErrNoProgress
}

// GuardedBuf is a caller-owned buffer embedded between canaries, with a shadow
// copy, for "lent memory" and "destination" monitors.
type GuardedBuf struct {
	All    []byte // canary | body (cap may extend into the trailing canary) | canary
	Lo, Hi int    // body = All[Lo:Hi]
	Shadow []byte
	Canary byte
}

const GuardLen = 64

// NewGuarded builds a buffer of n body bytes filled with fill.
func NewGuarded(n int, fill, canary byte) *GuardedBuf {
	all := make([]byte, n+2*GuardLen)
	for i := range all {
		all[i] = canary
	}
	for i := GuardLen; i < GuardLen+n; i++ {
		all[i] = fill
	}
	g := &GuardedBuf{All: all, Lo: GuardLen, Hi: GuardLen + n, Canary: canary}
	g.Snapshot()
	return g
}

// Body returns the body with capacity == length.
func (g *GuardedBuf) Body() []byte { return g.All[g.Lo:g.Hi:g.Hi] }

// BodyLoose returns the body with capacity extending into the trailing canary.
func (g *GuardedBuf) BodyLoose() []byte { return g.All[g.Lo:g.Hi:len(g.All)] }

func (g *GuardedBuf) Snapshot() { g.Shadow = append(g.Shadow[:0], g.All...) }

// CanariesIntact reports the first damaged canary offset relative to the body
// start (negative = leading canary), or ok.
func (g *GuardedBuf) CanariesIntact() (int, bool) {
	for i := 0; i < g.Lo; i++ {
		if g.All[i] != g.Canary {
			return i - g.Lo, false
		}
	}
	for i := g.Hi; i < len(g.All); i++ {
		if g.All[i] != g.Canary {
			return i - g.Lo, false
		}
	}
	return 0, true
}

// Unchanged compares everything (canaries and body) with the shadow.
func (g *GuardedBuf) Unchanged() (int, bool) {
	for i := range g.All {
		if g.All[i] != g.Shadow[i] {
			return i - g.Lo, false
		}
	}
	return 0, true
}
