package props

import (
	"bytes"
	stdjson "encoding/json"
	"errors"
	"fmt"
	"io"
	"reflect"
	"sort"
	"strings"

	"verifsim/core"
	"verifsim/gen"
	"verifsim/ref"
	"verifsim/simio"

	"github.com/segmentio/encoding/proto"
)

// C16 — proto.MarshalTo honours the caller's buffer for every size.
//
// The destination is a fixed-size medium; "full at byte k" is the injected
// fault, enumerated for every k from 0 to Size(v)+16 per generated value, in
// two shapes (capacity == length; capacity extending into a canary region).

func init() {
	core.Register(&core.Property{
		ID: "C16", Level: "fault_enumeration", Engine: "bufexhaust",
		Quick: 100000, Thorough: 1200000,
		Run:        runC16,
		Rule:       "one run = one generated (type, value); evaluations = individual MarshalTo calls, one per destination length L in 0..Size(v)+16 and per buffer shape (cap==len, cap extends into the trailing canary): cut points are exhaustive per value, values are sampled. non-trivial = the value encodes to at least 2 bytes (so that at least one cut lands inside its output); distinct = distinct hash of (type, Marshal(v) bytes)",
		FaultKinds: []string{"two-fields-share-one-slice", "element-changed-in-place-between-two-encodes", "values-in-turn-at-one-address", "large-value", "empty-strings-sliced-from-non-empty-ones", "destination-shorter-than-size", "destination-exact", "destination-longer", "cap-extends-past-len", "value-after-other-values-of-the-same-type", "cut-inside-varint-or-tag", "cut-inside-bytes-or-string", "cut-inside-embedded-message", "cut-inside-repeated", "cut-inside-map-entry", "cut-inside-custom-message", "cut-inside-fixed"},
		ProbeNames: []string{"values", "values-with-multi-entry-maps(compared canonically)", "values-map-free(compared bytewise)", "size==0", "size>=128(two-byte length prefixes)", "size>=1KiB", "custom-or-Message-types", "unencodable-skipped", "well-formedness-checked(reference parser)", "large-value(destination lengths sampled)"},
		Real:       []string{"proto.MarshalTo, proto.Size, proto.Marshal, proto.Unmarshal compiled from /repo's working tree with sync and sync/atomic redirected to the shim (deterministic simulated sync.Pool, pristine library state before every run)"},
		Model:      []string{"destination buffer (simio.GuardedBuf: prefill pattern, canaries on both sides)", "well-behaved user Message / gogo-style custom message implementations"},
		Assumptions: []string{
			"what MarshalTo leaves in dest[Size:L] on success and in dest[:L] on failure is not constrained by the statement and not checked",
			"user-implemented Marshal/MarshalTo methods either report io.ErrShortBuffer themselves or, like protoc-gen-gogo output, slice the destination to Size() and rely on the library having checked the space",
			"types and values are sampled from the seeded proto generator and the static zoo",
		},
	})
}

func c16Type(r *core.Run) *simType {
	t := r.T
	if t.Chance(1, 4) {
		z := zooFor(gen.Proto)
		if t.Chance(1, 3) {
			z = zooProtoScalars
		}
		return z[t.Intn(len(z))]
	}
	shape := t.Intn(gen.ShapeSpace)
	sparse := t.Chance(1, 4)
	noMaps := t.Chance(1, 2)
	rt := gen.Shape(gen.Proto, shape, sparse, noMaps)
	return &simType{codec: gen.Proto, rt: rt, name: fmt.Sprintf("proto-shape-%d/%v/%v", shape, sparse, noMaps), flags: typeFlags(rt)}
}

// fieldKindsOf lists the codec kinds present in a type, for the fault-kind
// counters ("the cut landed inside …" is counted when a value of that kind is
// present and non-empty; every L is tried, so every byte of it is a cut point).
func fieldKindsOf(rt reflect.Type) map[string]bool {
	out := map[string]bool{}
	seen := map[reflect.Type]bool{}
	var walk func(t reflect.Type, d int)
	walk = func(t reflect.Type, d int) {
		if seen[t] || d > 8 {
			return
		}
		seen[t] = true
		if reflect.PointerTo(t).Implements(reflect.TypeOf((*proto.Message)(nil)).Elem()) || (strings.Contains(t.Name(), "PCustom") || strings.Contains(t.Name(), "PGogo")) {
			out["cut-inside-custom-message"] = true
		}
		switch t.Kind() {
		case reflect.Map:
			out["cut-inside-map-entry"] = true
			walk(t.Key(), d+1)
			walk(t.Elem(), d+1)
		case reflect.Slice:
			if t.Elem().Kind() == reflect.Uint8 {
				out["cut-inside-bytes-or-string"] = true
			} else {
				out["cut-inside-repeated"] = true
				walk(t.Elem(), d+1)
			}
		case reflect.Array, reflect.String:
			out["cut-inside-bytes-or-string"] = true
		case reflect.Ptr:
			walk(t.Elem(), d+1)
		case reflect.Struct:
			if d > 0 {
				out["cut-inside-embedded-message"] = true
			}
			for i := 0; i < t.NumField(); i++ {
				walk(t.Field(i).Type, d+1)
			}
		case reflect.Float32, reflect.Float64:
			out["cut-inside-fixed"] = true
		default:
			out["cut-inside-varint-or-tag"] = true
		}
	}
	walk(rt, 0)
	return out
}

// c16Scenario is the literal form of a run: the type (zoo name or shape
// parameters) and the value as its protobuf encoding.
type c16Scenario struct {
	Type   string `json:"type,omitempty"` // zoo name
	Shape  int    `json:"shape,omitempty"`
	Sparse bool   `json:"sparse,omitempty"`
	NoMaps bool   `json:"no_maps,omitempty"`
	Value  []byte `json:"value"`
	// Before lists the encodings of the values of the same type that went
	// through the codec earlier in the run.
	Before [][]byte `json:"before,omitempty"`
	// SlicedEmpties: every empty string in the values is the empty tail of a
	// non-empty string (s[len(s):], non-nil data pointer) instead of "".
	SlicedEmpties bool `json:"sliced_empties,omitempty"`
	// Large: the value was made large on purpose; destination lengths are sampled.
	Large bool `json:"large,omitempty"`
	// SameMemory: the values of the run are stored in turn in one variable.
	SameMemory bool `json:"same_memory,omitempty"`
	// AliasSlices: the first two fields of one slice type share one slice.
	AliasSlices bool `json:"alias_slices,omitempty"`
	// MutateInPlace: each value is checked, then the first element of its first
	// non-empty repeated scalar / string field is changed in place, then checked again.
	MutateInPlace bool `json:"mutate_in_place,omitempty"`
}

// c16Large is set for the run in progress (one run at a time per process).
var c16Large bool

// c16Inflate makes the first string, []byte or slice of scalars reachable from v
// large: n bytes, or n/16 + 1 elements (at least 257).
func c16Inflate(v reflect.Value, n, depth int) bool {
	if depth > 8 || !v.IsValid() {
		return false
	}
	switch v.Kind() {
	case reflect.Ptr:
		if v.IsNil() {
			return false
		}
		return c16Inflate(v.Elem(), n, depth+1)
	case reflect.String:
		if !v.CanSet() {
			return false
		}
		v.SetString(strings.Repeat("large-", n/6+1)[:n])
		return true
	case reflect.Slice:
		if !v.CanSet() {
			return false
		}
		ek := v.Type().Elem().Kind()
		if ek == reflect.Uint8 {
			b := reflect.MakeSlice(v.Type(), n, n)
			for i := 0; i < n; i += 7 {
				b.Index(i).SetUint(uint64(i))
			}
			v.Set(b)
			return true
		}
		switch ek {
		case reflect.Bool, reflect.Int, reflect.Int32, reflect.Int64, reflect.Uint, reflect.Uint32, reflect.Uint64, reflect.Float32, reflect.Float64, reflect.String:
			m := n/16 + 1
			if m < 257 {
				m = 257
			}
			b := reflect.MakeSlice(v.Type(), m, m)
			for i := 0; i < m; i++ {
				if i < v.Len() {
					b.Index(i).Set(v.Index(i))
				} else if ek == reflect.String {
					b.Index(i).SetString("e")
				} else if ek == reflect.Bool {
					b.Index(i).SetBool(i%2 == 0)
				} else if ek == reflect.Float32 || ek == reflect.Float64 {
					b.Index(i).SetFloat(float64(i))
				} else if ek == reflect.Int || ek == reflect.Int32 || ek == reflect.Int64 {
					b.Index(i).SetInt(int64(i))
				} else {
					b.Index(i).SetUint(uint64(i))
				}
			}
			v.Set(b)
			return true
		}
		return false
	case reflect.Struct:
		for i := 0; i < v.NumField(); i++ {
			if v.Type().Field(i).PkgPath == "" && c16Inflate(v.Field(i), n, depth+1) {
				return true
			}
		}
	}
	return false
}

// c16AliasSlices makes the second field of a struct that has the slice type of an
// earlier non-empty slice field share that field's slice.
func c16AliasSlices(v reflect.Value) bool {
	for v.Kind() == reflect.Ptr {
		if v.IsNil() {
			return false
		}
		v = v.Elem()
	}
	if v.Kind() != reflect.Struct {
		return false
	}
	first := map[reflect.Type]reflect.Value{}
	for i := 0; i < v.NumField(); i++ {
		f := v.Field(i)
		if v.Type().Field(i).PkgPath != "" || f.Kind() != reflect.Slice || f.Type().Elem().Kind() == reflect.Uint8 {
			continue
		}
		if g, ok := first[f.Type()]; ok {
			f.Set(g)
			return true
		}
		if f.Len() > 0 {
			first[f.Type()] = f
		}
	}
	return false
}

// c16MutateInPlace changes, in place, the first element of the first non-empty
// repeated field of integers or strings to a value with another encoded length.
func c16MutateInPlace(v reflect.Value) bool {
	for v.Kind() == reflect.Ptr {
		if v.IsNil() {
			return false
		}
		v = v.Elem()
	}
	if v.Kind() != reflect.Struct {
		return false
	}
	for i := 0; i < v.NumField(); i++ {
		f := v.Field(i)
		if v.Type().Field(i).PkgPath != "" || f.Kind() != reflect.Slice || f.Len() == 0 {
			continue
		}
		e := f.Index(0)
		switch e.Kind() {
		case reflect.Int, reflect.Int32, reflect.Int64:
			if e.Int() >= 0 && e.Int() < 128 {
				e.SetInt(1 << 30)
			} else {
				e.SetInt(1)
			}
			return true
		case reflect.Uint, reflect.Uint32, reflect.Uint64:
			if e.Uint() < 128 {
				e.SetUint(1 << 30)
			} else {
				e.SetUint(1)
			}
			return true
		case reflect.String:
			e.SetString(e.String() + "-changed-in-place-and-longer-than-it-was")
			return true
		}
	}
	return false
}

var c16Backing = strings.Repeat("backing", 3)

// slicedEmpties replaces every empty string reachable from v by an empty slice
// of a non-empty string.
func slicedEmpties(v reflect.Value, depth int) {
	if depth > 16 || !v.IsValid() {
		return
	}
	switch v.Kind() {
	case reflect.String:
		if v.Len() == 0 && v.CanSet() {
			v.SetString(c16Backing[len(c16Backing)-3:][3:])
		}
	case reflect.Ptr, reflect.Interface:
		if !v.IsNil() && v.Kind() == reflect.Ptr {
			slicedEmpties(v.Elem(), depth+1)
		}
	case reflect.Struct:
		for i := 0; i < v.NumField(); i++ {
			if v.Type().Field(i).PkgPath == "" {
				slicedEmpties(v.Field(i), depth+1)
			}
		}
	case reflect.Slice, reflect.Array:
		if v.Type().Elem().Kind() == reflect.Uint8 {
			return
		}
		for i := 0; i < v.Len(); i++ {
			slicedEmpties(v.Index(i), depth+1)
		}
	case reflect.Map:
		for _, k := range v.MapKeys() {
			e := reflect.New(v.Type().Elem()).Elem()
			e.Set(v.MapIndex(k))
			slicedEmpties(e, depth+1)
			v.SetMapIndex(k, e)
		}
	}
}

func protoTypeOfScenario(name string, shape int, sparse, noMaps bool) *simType {
	if name != "" {
		for _, z := range append(append([]*simType(nil), zooFor(gen.Proto)...), zooProtoScalars...) {
			if z.name == name {
				return z
			}
		}
		core.Harness("scenario names unknown zoo type %q", name)
	}
	rt := gen.Shape(gen.Proto, shape, sparse, noMaps)
	return &simType{codec: gen.Proto, rt: rt, name: fmt.Sprintf("proto-shape-%d/%v/%v", shape, sparse, noMaps), flags: typeFlags(rt)}
}

func runC16(r *core.Run) {
	resetLibrary()
	t := r.T
	var ty *simType
	sc := &c16Scenario{}
	var vals []reflect.Value
	if r.Scenario != nil {
		if err := stdjson.Unmarshal(r.Scenario, sc); err != nil {
			core.Harness("C16 scenario: %v", err)
		}
		ty = protoTypeOfScenario(sc.Type, sc.Shape, sc.Sparse, sc.NoMaps)
		for _, enc := range append(append([][]byte(nil), sc.Before...), sc.Value) {
			v := reflect.New(ty.rt)
			if err := proto.Unmarshal(enc, v.Interface()); err != nil {
				core.Harness("C16 scenario value does not decode: %v", err)
			}
			vals = append(vals, v)
		}
	} else {
		ty = c16Type(r)
		// an order of operations: several values of one type go through the same
		// codec one after the other (state kept in a codec must not leak)
		n := t.Pick(5, 3, 2) + 1
		for i := 0; i < n; i++ {
			vg := &gen.Values{T: t, C: gen.Proto, MaxMap: 3, MaxLen: 4}
			switch t.Pick(5, 2, 1) {
			case 1:
				vg.MaxLen = 12
			case 2:
				vg.MaxLen = 60
			}
			if i > 0 && t.Chance(1, 3) {
				vals = append(vals, reflect.New(ty.rt)) // the zero value: empty maps, nil pointers
				continue
			}
			vals = append(vals, vg.New(ty.rt))
		}
	}
	if r.Scenario == nil {
		sc.SlicedEmpties = t.Chance(1, 3)
		if t.Chance(1, 250) {
			// one large value: a string / []byte beyond 64 KiB (or 1 MiB), or a
			// repeated field with more than 255 / 65535 elements
			n := []int{65535, 65536, 65537, 70001, 1<<20 + 3}[t.Pick(3, 3, 3, 2, 1)]
			if c16Inflate(vals[len(vals)-1], n, 0) {
				sc.Large = true
				vals = vals[len(vals)-1:]
				r.Fault("large-value")
			}
		}
	}
	c16Large = sc.Large
	if sc.SlicedEmpties {
		r.Fault("empty-strings-sliced-from-non-empty-ones")
		for _, v := range vals {
			slicedEmpties(v, 0)
		}
	}
	if r.Scenario == nil {
		sc.SameMemory = len(vals) > 1 && t.Chance(1, 3)
	}
	var slot reflect.Value
	if sc.SameMemory {
		// the caller's one variable: the same address holds each value in turn
		slot = reflect.New(ty.rt)
		r.Fault("values-in-turn-at-one-address")
	}
	if r.Scenario == nil {
		sc.AliasSlices = t.Chance(1, 4)
		sc.MutateInPlace = t.Chance(1, 3)
	}
	if sc.AliasSlices {
		for _, v := range vals {
			if c16AliasSlices(v) {
				r.Fault("two-fields-share-one-slice")
			}
		}
	}
	if sc.MutateInPlace {
		// after a value was measured and encoded the caller changes an element of one
		// of its repeated fields in place and encodes it again
		var more []reflect.Value
		for _, v := range vals {
			more = append(more, v)
			more = append(more, reflect.Value{}) // marker: mutate the previous value in place, check again
		}
		vals = more
	}
	var encs [][]byte
	var prev reflect.Value
	for i, v := range vals {
		if !v.IsValid() {
			if !prev.IsValid() || !c16MutateInPlace(prev) {
				continue
			}
			r.Fault("element-changed-in-place-between-two-encodes")
			v = prev
		} else {
			prev = v
		}
		if sc.SameMemory && v != slot {
			slot.Elem().Set(v.Elem())
			v = slot
			prev = slot
		}
		want, ok := c16CheckValue(r, ty, v, i == 0)
		if r.V != nil {
			if r.Scenario == nil {
				out := &c16Scenario{Before: encs, Value: want, SlicedEmpties: sc.SlicedEmpties, Large: sc.Large, SameMemory: sc.SameMemory, AliasSlices: sc.AliasSlices, MutateInPlace: sc.MutateInPlace}
				var shape int
				var sp, nm bool
				if n, _ := fmt.Sscanf(ty.name, "proto-shape-%d/%t/%t", &shape, &sp, &nm); n == 3 {
					out.Shape, out.Sparse, out.NoMaps = shape, sp, nm
				} else {
					out.Type = ty.name
				}
				r.ScenarioOut = out
			}
			return
		}
		if !ok {
			return
		}
		encs = append(encs, want)
		if i > 0 {
			r.Fault("value-after-other-values-of-the-same-type")
		}
	}
	if v := poolViolation(); v != "" {
		r.Fail("pool-monitor", firstWordOf(v), "%s", v)
	}
	r.Steps += r.Evaluations
}

func firstWordOf(s string) string {
	if i := strings.IndexAny(s, ": "); i > 0 {
		return s[:i]
	}
	return s
}

// c16CheckValue enumerates every destination length for one value; it returns
// Marshal(v) and false when the value is skipped.
func c16CheckValue(r *core.Run, ty *simType, v reflect.Value, first bool) ([]byte, bool) {
	hasMap := strings.Contains(ty.flags, "mapfield")
	if hasMap && v.Elem().Kind() == reflect.Struct {
		// does the value actually hold a multi-entry map? bytes are comparable
		// when every map has at most one entry
		hasMap = multiEntryMap(v.Elem(), 0)
	}

	arg := protoArg(v)
	want, err := protoMarshalNoPanic(arg)
	if err != nil {
		// the generator produced a value this codec refuses: not C16's business
		r.Probe("unencodable-skipped")
		return nil, false
	}
	size := proto.Size(arg)
	r.Probe("values")
	r.SigAdd(ty.name)
	r.SigAddBytes(want)
	if size >= 2 {
		r.NonTrivial = true
	}
	maxSize := 2 << 10
	if r.Tier == "thorough" || size >= 16380 {
		maxSize = 20 << 10
	}
	sampled := false
	if size > maxSize {
		if !c16Large {
			r.Probe("unencodable-skipped")
			return nil, false
		}
		// a deliberately large value: destination lengths are sampled
		sampled = true
		r.Probe("large-value(destination lengths sampled)")
	}
	if size == 0 {
		r.Probe("size==0")
	}
	if size >= 128 {
		r.Probe("size>=128(two-byte length prefixes)")
	}
	if size >= 1024 {
		r.Probe("size>=1KiB")
	}
	if hasMap {
		r.Probe("values-with-multi-entry-maps(compared canonically)")
	} else {
		r.Probe("values-map-free(compared bytewise)")
	}
	kinds := fieldKindsOf(ty.rt)
	if kinds["cut-inside-custom-message"] {
		r.Probe("custom-or-Message-types")
	}
	if size >= 2 {
		for k := range kinds {
			r.Fault(k)
		}
	}
	if r.WantSample && first {
		r.Sample = map[string]any{"type": clipStr(ty.name+" "+ty.rt.String(), 400), "size": size, "marshal_hex": fmt.Sprintf("%x", clip(want, 64)), "destination_lengths_tried": fmt.Sprintf("0..%d, two buffer shapes each", size+16)}
	}
	if len(want) != size {
		// C03's territory (Size == len(Marshal)); C16 needs it as a precondition
		r.Fail("precondition", "size-ne-len-marshal", "Size(v)=%d but len(Marshal(v))=%d for %s", size, len(want), ty.name)
		return want, true
	}

	// "a valid encoding of v": independent of Marshal, the bytes must be a
	// well-formed message down to every embedded message the type declares
	// (checked once per value on Marshal's output, which the per-length loop
	// below compares MarshalTo's output with)
	if ty.rt.Kind() == reflect.Struct && !protoOpaque(ty.rt) {
		tree, ok := ref.ParseTree(want, ref.SchemaOf(ty.rt, protoOpaque), 0)
		if !ok {
			r.Fail("wrong-bytes", "encoding-not-well-formed", "the %d bytes that Marshal / MarshalTo produce for this value of %s are not a well-formed protobuf message: %x", len(want), ty.name, clip(want, 120))
			return want, true
		}
		// ... "of v": every field in it carries a number the type declares
		if num, found := tree.Undeclared(); found {
			r.Fail("wrong-bytes", "encoding-has-undeclared-field-number", "the %d bytes that Marshal / MarshalTo produce for this value of %s carry field number %d, which the type does not declare at that level: %x", len(want), ty.name, num, clip(want, 120))
			return want, true
		}
		r.Probe("well-formedness-checked(reference parser)")
	}

	const prefill, canary = 0x5A, 0xC3
	var lengths []int
	if !sampled {
		for L := 0; L <= size+16; L++ {
			lengths = append(lengths, L)
		}
	} else {
		seen := map[int]bool{}
		add := func(L int) {
			if L >= 0 && L <= size+16 && !seen[L] {
				seen[L] = true
				lengths = append(lengths, L)
			}
		}
		for L := 0; L <= 24; L++ {
			add(L)
			add(size - L)
			add(size + L)
		}
		for k := uint(5); k < 31; k++ {
			for d := -2; d <= 2; d++ {
				add(1<<k + d)
				add(size - 1<<k + d)
			}
		}
		for k := 1; k < 48; k++ {
			add(k * size / 48)
			add(k*size/48 + k%5)
		}
		sort.Ints(lengths)
	}
	for _, L := range lengths {
		for shape := 0; shape < 2; shape++ {
			r.Evaluations++
			g := simio.NewGuarded(L, prefill, canary)
			dest := g.Body()
			if shape == 1 {
				dest = g.BodyLoose()
				r.Fault("cap-extends-past-len")
			}
			n, err, pan := marshalToNoPanic(dest, arg)
			where := fmt.Sprintf("MarshalTo(len=%d cap=%d) of %s (Size=%d)", L, cap(dest), ty.name, size)
			if pan != "" {
				r.Fail("panic", "marshalto-panic:"+panicSite(pan), "%s panicked: %s", where, pan)
				return want, true
			}
			if off, ok := g.CanariesIntact(); !ok {
				r.Fail("out-of-bounds-write", "wrote-beyond-len", "%s wrote at offset %d, at or beyond len(b)=%d (guard byte damaged)", where, off, L)
				return want, true
			}
			switch {
			case L < size:
				r.Fault("destination-shorter-than-size")
				if err == nil {
					r.Fail("short-buffer-accepted", "short-buffer-no-error", "%s returned n=%d and no error although the destination is shorter than Size(v)", where, n)
					return want, true
				}
				if !errors.Is(err, io.ErrShortBuffer) {
					r.Fail("short-buffer-error-kind", "short-buffer-wrong-error", "%s returned %q, which is not io.ErrShortBuffer", where, err)
					return want, true
				}
			default:
				if L == size {
					r.Fault("destination-exact")
				} else {
					r.Fault("destination-longer")
				}
				if err != nil {
					r.Fail("sufficient-buffer-rejected", "error-with-enough-space", "%s failed with %v although len(b) >= Size(v)", where, err)
					return want, true
				}
				if n != size {
					r.Fail("wrong-count", "count-ne-size", "%s reported %d bytes, Size(v) is %d", where, n, size)
					return want, true
				}
				got := g.Body()[:n]
				if !hasMap {
					if !bytes.Equal(got, want) {
						r.Fail("wrong-bytes", "bytes-ne-marshal", "%s wrote %x, Marshal(v) is %x", where, clip(got, 80), clip(want, 80))
						return want, true
					}
				} else {
					// encodings of one value may differ in map iteration order only:
					// compare canonical forms computed by the reference parser
					if _, ok := ref.ParseMessage(got); !ok {
						r.Fail("wrong-bytes", "encoding-not-well-formed", "%s wrote bytes that are not a well-formed protobuf message: %x", where, clip(got, 120))
						return want, true
					}
					if !bytes.Equal(ref.Canonical(got, 0), ref.Canonical(want, 0)) {
						r.Fail("wrong-bytes", "canonical-ne-marshal", "%s wrote %x, which is not Marshal(v) = %x up to the order of map entries", where, clip(got, 80), clip(want, 80))
						return want, true
					}
				}
			}
		}
	}
	return want, true
}

func multiEntryMap(v reflect.Value, d int) bool {
	if d > 10 {
		return false
	}
	switch v.Kind() {
	case reflect.Map:
		if v.Len() > 1 {
			return true
		}
		it := v.MapRange()
		for it.Next() {
			if multiEntryMap(it.Value(), d+1) {
				return true
			}
		}
	case reflect.Ptr, reflect.Interface:
		if !v.IsNil() {
			return multiEntryMap(v.Elem(), d+1)
		}
	case reflect.Slice, reflect.Array:
		if v.Type().Elem().Kind() == reflect.Uint8 {
			return false
		}
		for i := 0; i < v.Len(); i++ {
			if multiEntryMap(v.Index(i), d+1) {
				return true
			}
		}
	case reflect.Struct:
		for i := 0; i < v.NumField(); i++ {
			if multiEntryMap(v.Field(i), d+1) {
				return true
			}
		}
	}
	return false
}

func protoMarshalNoPanic(v any) (b []byte, err error) {
	defer func() {
		if e := recover(); e != nil {
			err = fmt.Errorf("panic: %v", e)
		}
	}()
	return proto.Marshal(v)
}

func marshalToNoPanic(b []byte, v any) (n int, err error, pan string) {
	defer func() {
		if e := recover(); e != nil {
			pan = fmt.Sprintf("%v\n%s", e, stackOfLibrary())
		}
	}()
	n, err = proto.MarshalTo(b, v)
	return
}
