package props

import (
	"errors"
	"io"
	"reflect"
	"strconv"
	"strings"
	"time"

	"verifsim/gen"

	"github.com/segmentio/encoding/json"
	"github.com/segmentio/encoding/proto"
)

// The static zoo: shapes reflect cannot build — recursive types, embedded
// (pointer) structs, Marshaler / TextMarshaler / Unmarshaler on value and
// pointer receivers, proto.Message and gogo-style custom messages,
// single-pointer ("inlined") structs.

// ---- json -------------------------------------------------------------------

type ZRec struct {
	V    int              `json:"v"`
	Next *ZRec            `json:"next,omitempty"`
	Kids []ZRec           `json:"kids,omitempty"`
	M    map[string]*ZRec `json:"m,omitempty"`
}

type ZInner struct {
	A int
	B string `json:"b,omitempty"`
}

type ZPInner struct {
	C float64
	D []byte
}

type ZEmb struct {
	ZInner
	*ZPInner
	X int `json:"x"`
}

type ZValMarshaler struct{ N int }

func (z ZValMarshaler) MarshalJSON() ([]byte, error) {
	return []byte(`{"n":` + strconv.Itoa(z.N) + `}`), nil
}

func (z *ZValMarshaler) UnmarshalJSON(b []byte) error {
	var x struct{ N int }
	if err := json.Unmarshal(b, &x); err != nil {
		return err
	}
	z.N = x.N
	return nil
}

type ZPtrMarshaler struct{ S string }

func (z *ZPtrMarshaler) MarshalJSON() ([]byte, error) {
	return json.Marshal("ptr:" + z.S)
}

type ZText struct{ K int }

func (z ZText) MarshalText() ([]byte, error) { return []byte("t" + strconv.Itoa(z.K)), nil }
func (z *ZText) UnmarshalText(b []byte) error {
	if len(b) < 1 || b[0] != 't' {
		return errors.New("bad ZText")
	}
	n, err := strconv.Atoi(string(b[1:]))
	z.K = n
	return err
}

type ZMarshalers struct {
	A ZValMarshaler
	B *ZValMarshaler
	C ZPtrMarshaler
	D *ZPtrMarshaler `json:",omitempty"`
	E map[ZText]int
	F ZText
	G []ZValMarshaler
}

type ZInlined struct{ P *int }

type ZMisc struct {
	N   json.Number
	R   json.RawMessage
	T   time.Time
	D   time.Duration
	I   any
	M   map[string]any
	MI  map[int]string
	A   [3]int
	PP  **int
	S   []*string
	E   struct{}
	Q   int64 `json:",string"`
	Big struct {
		F00, F01, F02, F03, F04, F05, F06, F07, F08, F09 int
		F10, F11, F12, F13, F14, F15, F16, F17, F18, F19 int
		F20, F21, F22, F23, F24, F25, F26, F27, F28, F29 int
		F30, F31, F32, F33, F34                          string
	}
}

// ---- proto --------------------------------------------------------------------

type PNode struct {
	V    int64             `protobuf:"varint,1,opt,name=v"`
	Next *PNode            `protobuf:"bytes,2,opt,name=next"`
	Kids []PNode           `protobuf:"bytes,3,rep,name=kids"`
	M    map[string]*PNode `protobuf:"bytes,4,rep,name=m"`
	Name string            `protobuf:"bytes,5,opt,name=name"`
}

// PMsg implements proto.Message (Size / Marshal / Unmarshal).
type PMsg struct{ B []byte }

func (m *PMsg) Size() int { return len(m.B) }
func (m *PMsg) Marshal(b []byte) error {
	if len(b) < len(m.B) {
		return io.ErrShortBuffer
	}
	copy(b, m.B)
	return nil
}
func (m *PMsg) Unmarshal(b []byte) error { m.B = append([]byte(nil), b...); return nil }

// PCustom implements the gogo-style customMessage (Size / MarshalTo / Unmarshal).
type PCustom struct{ S string }

func (m *PCustom) Size() int { return len(m.S) }
func (m *PCustom) MarshalTo(b []byte) (int, error) {
	if len(b) < len(m.S) {
		return 0, io.ErrShortBuffer
	}
	return copy(b, m.S), nil
}
func (m *PCustom) Unmarshal(b []byte) error { m.S = string(b); return nil }

type PWithMsgs struct {
	A  int32             `protobuf:"zigzag32,1,opt,name=a"`
	M  PMsg              `protobuf:"bytes,2,opt,name=m"`
	C  PCustom           `protobuf:"bytes,3,opt,name=c"`
	R  proto.RawMessage  `protobuf:"bytes,4,opt,name=r"`
	MM map[int32]string  `protobuf:"bytes,5,rep,name=mm"`
	MS map[string]PInner `protobuf:"bytes,6,rep,name=ms"`
	F  float32           `protobuf:"fixed32,7,opt,name=f"`
	U  []uint64          `protobuf:"varint,8,rep,name=u"`
	BA [4]byte           `protobuf:"bytes,9,opt,name=ba"`
}

type PInner struct {
	X uint32 `protobuf:"fixed32,1,opt,name=x"`
	Y string `protobuf:"bytes,2,opt,name=y"`
}

type PInlined struct {
	P *PInner `protobuf:"bytes,1,opt,name=p"`
}

type PMaps struct {
	A map[string]string   `protobuf:"bytes,1,rep,name=a"`
	B map[int64]*PInner   `protobuf:"bytes,2,rep,name=b"`
	C map[uint32][]byte   `protobuf:"bytes,3,rep,name=c"`
	D map[bool]float64    `protobuf:"bytes,4,rep,name=d"`
	E map[string]PInlined `protobuf:"bytes,5,rep,name=e"`
}

// ---- thrift ---------------------------------------------------------------------

type TNode struct {
	V    int64             `thrift:"1"`
	Next *TNode            `thrift:"2,optional"`
	Kids []TNode           `thrift:"3"`
	M    map[string]*TNode `thrift:"4"`
	Name string            `thrift:"5,required"`
}

type TInner struct {
	A bool    `thrift:"1"`
	B int8    `thrift:"2"`
	C float64 `thrift:"3"`
}

type TMisc struct {
	Set  map[string]struct{} `thrift:"1"`
	L    [][]int32           `thrift:"2"`
	M    map[int16]TInner    `thrift:"3"`
	B    []byte              `thrift:"4"`
	Opt  *TInner             `thrift:"5,optional"`
	Req  TInner              `thrift:"6,required"`
	Bool bool                `thrift:"7"`
	I16  int16               `thrift:"20"`
	Far  string              `thrift:"90"`
}

var zoo [3][]*simType
var zooProtoScalars []*simType

func zt(c gen.Codec, v any, name string) *simType {
	rt := reflect.TypeOf(v)
	f := typeFlagsStatic(rt)
	return &simType{codec: c, rt: rt, name: name, flags: f}
}

func typeFlagsStatic(rt reflect.Type) string {
	f := ""
	seen := map[reflect.Type]bool{}
	var walk func(t reflect.Type) bool
	rec := false
	hasMap := false
	walk = func(t reflect.Type) bool {
		if t == rt && len(seen) > 0 {
			rec = true
			return true
		}
		if seen[t] {
			return false
		}
		seen[t] = true
		switch t.Kind() {
		case reflect.Map:
			hasMap = true
			walk(t.Key())
			walk(t.Elem())
		case reflect.Ptr, reflect.Slice, reflect.Array:
			walk(t.Elem())
		case reflect.Struct:
			for i := 0; i < t.NumField(); i++ {
				walk(t.Field(i).Type)
			}
		}
		return false
	}
	walk(rt)
	if rec {
		f += "recursive "
	}
	if hasMap {
		f += "mapfield "
	}
	return f
}

func init() {
	zoo[gen.JSON] = []*simType{
		zt(gen.JSON, ZRec{}, "ZRec"), zt(gen.JSON, ZEmb{}, "ZEmb"), zt(gen.JSON, ZMarshalers{}, "ZMarshalers"),
		zt(gen.JSON, ZInlined{}, "ZInlined"), zt(gen.JSON, ZMisc{}, "ZMisc"), zt(gen.JSON, map[string]ZRec{}, "map[string]ZRec"),
		zt(gen.JSON, []ZEmb{}, "[]ZEmb"), zt(gen.JSON, map[string]any{}, "map[string]any"), zt(gen.JSON, []any{}, "[]any"),
	}
	zoo[gen.Proto] = []*simType{
		zt(gen.Proto, PNode{}, "PNode"), zt(gen.Proto, PWithMsgs{}, "PWithMsgs"), zt(gen.Proto, PInlined{}, "PInlined"), zt(gen.Proto, PMaps{}, "PMaps"), zt(gen.Proto, PInner{}, "PInner"), zt(gen.Proto, PMsg{}, "PMsg"), zt(gen.Proto, PCustom{}, "PCustom"),
	}
	// top-level proto values that are not messages: used by C16 only (under the
	// race detector's checkptr instrumentation the library's handling of
	// by-value scalars is a fatal error, which is outside every claimed property)
	zooProtoScalars = []*simType{
		zt(gen.Proto, [8]byte{}, "[8]byte"), zt(gen.Proto, [21]byte{}, "[21]byte"), zt(gen.Proto, "", "string"), zt(gen.Proto, []byte(nil), "[]byte"),
		zt(gen.Proto, int64(0), "int64"), zt(gen.Proto, int32(0), "int32"), zt(gen.Proto, uint64(0), "uint64"), zt(gen.Proto, float64(0), "float64"), zt(gen.Proto, float32(0), "float32"), zt(gen.Proto, false, "bool"),
	}
	zoo[gen.Thrift] = []*simType{
		zt(gen.Thrift, TNode{}, "TNode"), zt(gen.Thrift, TMisc{}, "TMisc"), zt(gen.Thrift, TInner{}, "TInner"),
	}
}

func zooFor(c gen.Codec) []*simType { return zoo[c] }

type simType struct {
	codec gen.Codec
	rt    reflect.Type
	name  string
	flags string // "recursive", "mapfield", "nested"
}

func typeFlags(rt reflect.Type) string {
	var f []string
	seen := map[reflect.Type]bool{}
	var walk func(t reflect.Type, d int)
	walk = func(t reflect.Type, d int) {
		if seen[t] || d > 8 {
			return
		}
		seen[t] = true
		switch t.Kind() {
		case reflect.Map:
			f = append(f, "mapfield")
			walk(t.Elem(), d+1)
		case reflect.Ptr, reflect.Slice, reflect.Array:
			walk(t.Elem(), d+1)
		case reflect.Struct:
			for i := 0; i < t.NumField(); i++ {
				walk(t.Field(i).Type, d+1)
			}
		}
	}
	walk(rt, 0)
	return strings.Join(f, " ")
}

// protoArg is what to hand to proto.Marshal/Size/MarshalTo for a value of a
// zoo or generated type: a pointer to the struct, except for types that
// implement proto.Message or the gogo-style custom interface themselves, which
// the library only accepts by value at top level.
func protoArg(v reflect.Value) any {
	t := v.Elem().Type()
	if t == reflect.TypeOf(PMsg{}) || t == reflect.TypeOf(PCustom{}) {
		return v.Elem().Interface()
	}
	if t.Kind() != reflect.Struct && !(t.Kind() == reflect.Array && t.Len() > 8) {
		// top-level scalars, strings, byte slices and the small array go in by
		// value; the larger array by pointer
		return v.Elem().Interface()
	}
	return v.Interface()
}
