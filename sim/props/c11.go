package props

import (
	"bytes"
	stdjson "encoding/json"
	"errors"
	"fmt"
	"io"
	"reflect"

	"verifsim/core"
	"verifsim/gen"
	"verifsim/simio"

	"github.com/segmentio/encoding/json"
)

// C11 — json.Decoder yields the same value stream however the bytes arrive.
//
// One run = one value stream × one reader script (chunk schedule, zero reads,
// terminal condition at a chosen offset) × one target mode, refined against
// encoding/json's Decoder given the delivered bytes in a single read.

func init() {
	core.Register(&core.Property{
		ID: "C11", Level: "exploration", Engine: "simio",
		Quick: 60000, Thorough: 4000000,
		Run:  runC11,
		Rule: "one run = (value stream, reader script, terminal condition, target mode) drawn from the tape; non-trivial = the simulated reader split at least one value across two reads, or injected a zero-length read, data-with-error, or a terminal error/EOF before the end of the stream; distinct = distinct hash of (stream bytes, every (len(p), n, err) the reader returned, target mode)",
		FaultKinds: []string{"split-inside-number", "split-inside-string", "split-inside-escape", "split-inside-rune", "split-inside-literal",
			"split-in-whitespace", "split-at-structural", "zero-read", "data+eof", "data+err", "eof-inside-value", "eof-clean-early", "err-inside-value", "err-at-boundary",
			"err-kind-unexpected-eof", "err-kind-custom", "err-kind-wrapped", "err-kind-wraps-eof", "long-run-of-zero-length-reads", "second-decoder-used-in-turns", "option-set-in-the-middle-of-a-stream", "cut-right-after-number"},
		ProbeNames: []string{"refills>1", "value-longer-than-first-read-batch", "whitespace-run>64KiB", "values-decoded", "stream>32KiB", "stream>64KiB", "number-ends-at-read-boundary", "batch-boundary-inside-number", "batch-boundary-inside-token", "batch-boundary-inside-whitespace", "terminal-rechecked", "buffered-after-terminal-checked", "parse-remainder-checked", "buffered-checked", "values-rechecked-after-buffer-refills", "last-value-ends-at-a-fill-boundary"},
		Real:       []string{"json.Decoder (readValue, Buffered, InputOffset), json.Parse, the whole json decode path, compiled from /repo's working tree"},
		Model:      []string{"io.Reader (simio.Reader: scripted chunking, zero reads, data+err, terminal errors)", "reference: encoding/json.Decoder of the toolchain, fed the delivered bytes in a single read"},
		Assumptions: []string{
			"the simulated reader honours the io.Reader contract (n <= len(p), sticky terminal error, no endless (0,nil))",
			"encoding/json of the toolchain in use is the reference for framing and values",
			"streams contain only valid JSON values (no duplicate keys, lone surrogates or out-of-range numbers): value semantics are C02's input dimension, not claimed here",
			"no simulated clock: the library reads no time; logical steps = reader events",
		},
	})
}

type c11Struct struct {
	A int            `json:"a"`
	B string         `json:"b"`
	C []float64      `json:"c"`
	D map[string]any `json:"d"`
	E *struct {
		X bool `json:"x"`
	} `json:"e"`
	F stdjson.RawMessage `json:"f"`
}

type c11StructSeg struct {
	A int            `json:"a"`
	B string         `json:"b"`
	C []float64      `json:"c"`
	D map[string]any `json:"d"`
	E *struct {
		X bool `json:"x"`
	} `json:"e"`
	F json.RawMessage `json:"f"`
}

const (
	c11Raw = iota
	c11Any
	c11AnyNumber
	c11Struct_
)

var c11ModeNames = []string{"RawMessage", "any", "any+UseNumber", "struct"}

func c11GenStructValue(g *gen.JSONDoc, b []byte) []byte {
	t := g.T
	b = append(b, '{')
	first := true
	sep := func() {
		if !first {
			b = append(b, ',')
		}
		first = false
		if t.Chance(1, 4) {
			b = append(b, ' ')
		}
	}
	if t.Chance(3, 4) {
		sep()
		b = append(b, `"a":`...)
		b = fmt.Appendf(b, "%d", t.Intn(1<<30)-(1<<29))
	}
	if t.Chance(3, 4) {
		sep()
		b = append(b, `"b":`...)
		b = g.String(b)
	}
	if t.Chance(1, 2) {
		sep()
		b = append(b, `"c":[`...)
		n := t.Intn(6)
		for i := 0; i < n; i++ {
			if i > 0 {
				b = append(b, ',')
			}
			b = g.Number(b)
		}
		b = append(b, ']')
	}
	if t.Chance(1, 3) {
		sep()
		b = append(b, `"d":`...)
		b = append(b, '{')
		n := t.Intn(4)
		for i := 0; i < n; i++ {
			if i > 0 {
				b = append(b, ',')
			}
			b = g.Key(b)
			b = append(b, ':')
			b = g.Value(b, t.Intn(40), 3)
		}
		b = append(b, '}')
	}
	if t.Chance(1, 3) {
		sep()
		if t.Chance(1, 4) {
			b = append(b, `"e":null`...)
		} else if t.Bool() {
			b = append(b, `"e":{"x":true}`...)
		} else {
			b = append(b, `"e":{}`...)
		}
	}
	if t.Chance(1, 3) {
		sep()
		b = append(b, `"f":`...)
		b = g.Value(b, t.Intn(60), 3)
	}
	if t.Chance(1, 4) {
		sep()
		b = append(b, `"unknown":`...)
		b = g.Value(b, t.Intn(60), 3)
	}
	return append(b, '}')
}

// c11GenStream builds the stream; it returns the bytes.
func c11GenStream(r *core.Run, mode int, maxLen int) []byte {
	t := r.T
	g := &gen.JSONDoc{T: t}
	// total size class
	var total int
	switch t.Pick(3, 3, 3, 2) {
	case 0:
		total = t.Range(1, 300)
	case 1:
		total = t.Range(300, 6000)
	case 2:
		total = t.Range(6000, 70000)
	default:
		total = t.Range(30000, maxLen)
	}
	if total > maxLen {
		total = maxLen
	}
	// shape: 0 mixed, 1 dense small scalars (every read boundary lands in or
	// next to a scalar), 2 few large values, 3 dense numbers
	shape := t.Pick(4, 3, 2, 3)
	if mode == c11Struct_ {
		shape = 0
	}
	var b []byte
	if t.Chance(1, 4) {
		b = g.WS(b, t.Range(1, 5))
	}
	hugeWS := t.Chance(1, 40) && maxLen > 80000
	nvals := 0
	for len(b) < total || nvals == 0 {
		start := len(b)
		switch {
		case mode == c11Struct_:
			b = c11GenStructValue(g, b)
		case shape == 1:
			b = g.Scalar(b)
		case shape == 3:
			b = g.Number(b)
		case shape == 2:
			b = g.Value(b, t.Range(total/4, total), 0)
		default:
			sz := 0
			switch t.Pick(4, 3, 1) {
			case 1:
				sz = t.Range(13, 400)
			case 2:
				sz = t.Range(400, total+13)
			}
			b = g.Value(b, sz, 0)
		}
		nvals++
		last := b[len(b)-1]
		first := b[start]
		_ = first
		// separator after the value
		selfDelim := last == ']' || last == '}' || last == '"'
		switch k := t.Pick(10, 4, 2, 1); {
		case k == 0:
			b = g.WS(b, 1)
		case k == 1:
			b = g.WS(b, t.Range(2, 9))
		case k == 2:
			if selfDelim {
				// zero-length separator: the next value starts right here
				nextAmbiguous := false
				_ = nextAmbiguous
				// only unambiguous when the *next* value cannot extend this one:
				// after a self-delimiting value any next value is unambiguous.
			} else {
				b = g.WS(b, 1)
			}
		default:
			n := t.Range(10, 3000)
			if hugeWS {
				n = t.Range(65537, 70000)
				hugeWS = false
				r.Probe("whitespace-run>64KiB")
			}
			b = g.WS(b, n)
		}
		if len(b) >= maxLen+80000 {
			break
		}
	}
	// sometimes the last value ends exactly where a buffer fill ends (32768 or
	// 65536), with whitespace only behind it
	if t.Chance(1, 12) {
		end := len(b)
		for end > 0 && isWS(b[end-1]) {
			end--
		}
		// start of the last value: after the last whitespace in front of it at depth 0
		if spans, _ := c11RefFrames(b[:end]); len(spans) > 0 {
			last := spans[len(spans)-1]
			for _, target := range []int{32768, 65536} {
				if last.end <= target && last.start > 0 {
					pad := bytes.Repeat([]byte{' '}, target-last.end)
					nb := append(append(append([]byte(nil), b[:last.start]...), pad...), b[last.start:last.end]...)
					tail := [][]byte{{'\n'}, {' ', '\n'}, bytes.Repeat([]byte{' '}, 5000), bytes.Repeat([]byte{'\n'}, 40000), nil}[t.Intn(5)]
					r.Probe("last-value-ends-at-a-fill-boundary")
					return append(nb, tail...)
				}
			}
		}
	}
	// trailing whitespace: none / some
	if t.Chance(1, 3) {
		// strip the final separator to end exactly at a value end
		for len(b) > 0 {
			c := b[len(b)-1]
			if c == ' ' || c == '\n' || c == '\t' || c == '\r' {
				b = b[:len(b)-1]
			} else {
				break
			}
		}
	}
	return b
}

var (
	c11SideStream = []byte(`[1,2] {"a":"b\n"} "x" 12.5 null`)
	c11SideVals   = []any{[]any{1.0, 2.0}, map[string]any{"a": "b\n"}, "x", 12.5, nil}
)

type c11Span struct{ start, end int }

// c11RefFrames decodes s with encoding/json into RawMessages: the framing.
func c11RefFrames(s []byte) (spans []c11Span, term error) {
	dec := stdjson.NewDecoder(bytes.NewReader(s))
	for {
		var raw stdjson.RawMessage
		err := dec.Decode(&raw)
		if err != nil {
			return spans, err
		}
		end := int(dec.InputOffset())
		spans = append(spans, c11Span{end - len(raw), end})
	}
}

func c11RefValues(s []byte, mode, useNumberAt int) (vals []any, term error) {
	dec := stdjson.NewDecoder(bytes.NewReader(s))
	if mode == c11AnyNumber {
		dec.UseNumber()
	}
	for {
		if useNumberAt > 0 && len(vals) == useNumberAt {
			dec.UseNumber()
		}
		var err error
		var v any
		switch mode {
		case c11Raw:
			var raw stdjson.RawMessage
			err = dec.Decode(&raw)
			v = []byte(raw)
		case c11Struct_:
			var x c11Struct
			err = dec.Decode(&x)
			v = x
		default:
			err = dec.Decode(&v)
		}
		if err != nil {
			return vals, err
		}
		vals = append(vals, v)
	}
}

// normalise a segmentio struct value to the reference struct type.
func c11NormStruct(x c11StructSeg) c11Struct {
	return c11Struct{A: x.A, B: x.B, C: x.C, D: x.D, E: x.E, F: stdjson.RawMessage(x.F)}
}

// normNumbers converts json.Number (segmentio) to encoding/json.Number
// recursively — they are the same type today (alias), but need not be.
func c11NormAny(v any) any {
	switch x := v.(type) {
	case map[string]any:
		for k, e := range x {
			x[k] = c11NormAny(e)
		}
		return x
	case []any:
		for i, e := range x {
			x[i] = c11NormAny(e)
		}
		return x
	default:
		rv := reflect.ValueOf(v)
		if rv.IsValid() && rv.Kind() == reflect.String && rv.Type() != reflect.TypeOf("") {
			return stdjson.Number(rv.String())
		}
		return v
	}
}

func isWS(c byte) bool { return c == ' ' || c == '\n' || c == '\t' || c == '\r' }

// c11Scenario is everything a run does, in literal form: a replay file or a
// known-findings witness can carry it instead of a tape, which keeps witnesses
// valid when the generators change.
type c11Scenario struct {
	Mode          int    `json:"mode"`
	Stream        []byte `json:"stream"`
	Cut           int    `json:"cut"`
	Final         string `json:"final"` // EOF | ErrUnexpectedEOF | ErrInjected | ErrWrapped
	FinalWithData bool   `json:"final_with_data"`
	Script        []int  `json:"script"`
	Tail          int    `json:"tail"`
	// UseNumberAt > 0: UseNumber is called between Decode #UseNumberAt-1 and
	// Decode #UseNumberAt (an option set in the middle of a stream).
	UseNumberAt int `json:"use_number_at,omitempty"`
}

func c11FinalErr(name string) error {
	switch name {
	case "ErrUnexpectedEOF":
		return io.ErrUnexpectedEOF
	case "ErrInjected":
		return simio.ErrInjected
	case "ErrWrapped":
		return simio.ErrWrapped
	case "ErrWrapsEOF":
		return simio.ErrWrapsEOF
	}
	return io.EOF
}

func c11GenScenario(r *core.Run) *c11Scenario {
	t := r.T
	maxLen := 96 << 10
	if r.Tier == "thorough" && t.Chance(1, 8) {
		maxLen = 400 << 10
	}
	sc := &c11Scenario{}
	sc.Mode = t.Pick(5, 2, 2, 2)
	sc.Stream = c11GenStream(r, sc.Mode, maxLen)
	sc.Cut = len(sc.Stream)
	sc.Final = "EOF"
	switch t.Pick(5, 3, 2, 2, 2, 1) {
	case 0: // clean EOF at the very end
	case 1: // stream torn: EOF at an earlier offset
		sc.Cut = -1
	case 2:
		sc.Final, sc.Cut = "ErrUnexpectedEOF", -1
	case 3:
		sc.Final, sc.Cut = "ErrInjected", -1
	case 4:
		sc.Final, sc.Cut = "ErrWrapped", -1
	case 5:
		sc.Final, sc.Cut = "ErrWrapsEOF", -1
	}
	if sc.Cut < 0 {
		fullSpans, fullTerm := c11RefFrames(sc.Stream)
		if fullTerm != io.EOF || len(fullSpans) == 0 {
			core.Harness("C11 generator produced a stream the reference rejects: %v (%d values) %q", fullTerm, len(fullSpans), clip(sc.Stream, 200))
		}
		tags, cont := gen.Tags(sc.Stream)
		sc.Cut = c11PickOffset(r, sc.Stream, tags, cont, fullSpans)
	}
	sc.FinalWithData = t.Chance(1, 3)
	if sc.Mode == c11Any && t.Chance(1, 5) {
		sc.UseNumberAt = 1 + t.Intn(6)
	}
	rd := &simio.Reader{}
	chunkMode := t.Pick(3, 2, 3, 3, 2, 2)
	c11Script(r, rd, chunkMode, len(sc.Stream))
	c11ZeroRun(r, rd)
	for _, e := range rd.Script {
		sc.Script = append(sc.Script, e.N)
	}
	sc.Tail = rd.Tail
	return sc
}

func runC11(r *core.Run) {
	resetLibrary()
	var sc *c11Scenario
	if r.Scenario != nil {
		sc = &c11Scenario{}
		if err := stdjson.Unmarshal(r.Scenario, sc); err != nil {
			core.Harness("C11 scenario: %v", err)
		}
	} else {
		sc = c11GenScenario(r)
	}
	c11Exec(r, sc)
	if r.V != nil || r.WantSample {
		// full literal scenario for replay files (streams are at most a few
		// hundred KiB); evidence samples get a clipped form.
		if r.V != nil {
			r.ScenarioOut = sc
		}
	}
}

func c11Exec(r *core.Run, sc *c11Scenario) {
	t := r.T
	mode, stream, cut := sc.Mode, sc.Stream, sc.Cut
	if cut > len(stream) {
		cut = len(stream)
	}
	final, finalName, finalWithData := c11FinalErr(sc.Final), sc.Final, sc.FinalWithData
	if len(stream) > 32<<10 {
		r.Probe("stream>32KiB")
	}
	if len(stream) > 64<<10 {
		r.Probe("stream>64KiB")
	}

	// harness self-check: the full stream is valid for the reference.
	fullSpans, fullTerm := c11RefFrames(stream)
	if fullTerm != io.EOF || len(fullSpans) == 0 {
		core.Harness("C11 generator produced a stream the reference rejects: %v (%d values) %q", fullTerm, len(fullSpans), clip(stream, 200))
	}
	tags, cont := gen.Tags(stream)

	rd := &simio.Reader{Data: stream, Cut: cut, Final: final, FinalWithData: finalWithData, Tail: sc.Tail}
	for _, n := range sc.Script {
		rd.Script = append(rd.Script, simio.Event{N: n})
	}
	if rd.Tail < 1 {
		rd.Tail = 1
	}
	var sigReads uint64 = 1469598103934665603
	splitSeen := map[string]bool{}
	rd.OnBoundary = func(off int) {
		k := "split-at-structural"
		if cont[off] {
			switch tags[off] {
			case gen.TagNum:
				k = "split-inside-number"
			case gen.TagEsc:
				k = "split-inside-escape"
			case gen.TagRune:
				k = "split-inside-rune"
			case gen.TagLit:
				k = "split-inside-literal"
			default:
				k = "split-inside-string"
			}
			r.NonTrivial = true
		} else if tags[off] == gen.TagWS && off > 0 && tags[off-1] == gen.TagWS {
			k = "split-in-whitespace"
		} else if off > 0 && tags[off-1] == gen.TagNum {
			k = "number-ends-at-read-boundary"
		}
		if !splitSeen[k] {
			splitSeen[k] = true
			if k == "number-ends-at-read-boundary" {
				r.Probe(k)
			} else {
				r.Fault(k)
			}
		}
	}
	rd.Log = func(s string) {
		r.Steps++
		for i := 0; i < len(s); i++ {
			sigReads = (sigReads ^ uint64(s[i])) * 1099511628211
		}
		r.Event("%s", s)
	}

	r.SigAddBytes(stream)
	r.SigAdd(c11ModeNames[mode])

	// ---- reference over the delivered bytes ---------------------------------
	delivered := stream[:cut]
	spans, refTerm := fullSpans, fullTerm
	if cut != len(stream) {
		spans, refTerm = c11RefFrames(delivered)
	}
	refVals, refTerm2 := c11RefValues(delivered, mode, sc.UseNumberAt)
	if (refTerm == io.EOF) != (refTerm2 == io.EOF) || len(refVals) > len(spans) {
		core.Harness("C11 reference disagrees with itself: frames %d/%v values %d/%v", len(spans), refTerm, len(refVals), refTerm2)
	}
	if len(refVals) != len(spans) {
		core.Harness("C11 reference value count %d != frame count %d (%v)", len(refVals), len(spans), refTerm2)
	}
	// number ambiguity: delivered data ends right after the digits of a number.
	lastIsOpenNumber := false
	if n := len(spans); n > 0 && spans[n-1].end == cut && cut > 0 && tags[cut-1] == gen.TagNum {
		lastIsOpenNumber = true
		r.Fault("cut-right-after-number")
	}

	if r.WantSample {
		r.Sample = map[string]any{
			"mode": c11ModeNames[mode], "stream_len": len(stream), "stream_head": string(clip(stream, 120)),
			"values_in_stream": len(fullSpans), "cut": cut, "final": finalName, "final_with_data": finalWithData,
			"script_head": scriptHead(rd.Script, 12), "tail_chunk": rd.Tail,
			"reference_values_before_terminal": len(spans), "reference_terminal": fmt.Sprint(refTerm),
		}
	}

	// ---- the system under test ----------------------------------------------
	dec := json.NewDecoder(rd)
	if mode == c11AnyNumber {
		dec.UseNumber()
	}
	// accessors before the first Decode: nothing has been read, nothing is buffered
	if r.Scenario != nil || t.Chance(1, 4) {
		if off := dec.InputOffset(); off != 0 {
			r.Fail("offset-window", "offset-before-first-decode", "InputOffset is %d before the first Decode", off)
			return
		}
		if b, _ := io.ReadAll(dec.Buffered()); len(b) != 0 || rd.Off != 0 {
			r.Fail("buffered-window", "buffered-before-first-decode", "before the first Decode Buffered holds %d bytes and the reader has handed out %d", len(b), rd.Off)
			return
		}
	}
	// a second Decoder of the caller's, used in turns with the first: each behaves
	// as if it were alone
	var side *json.Decoder
	sideN := 0
	if r.Scenario == nil && t.Chance(1, 5) {
		side = json.NewDecoder(&simio.Reader{Data: c11SideStream, Cut: len(c11SideStream), Final: io.EOF, Tail: 1 + t.Intn(5)})
		r.Fault("second-decoder-used-in-turns")
	}
	sideStep := func() bool {
		if side == nil {
			return true
		}
		var v any
		err := side.Decode(&v)
		if sideN < len(c11SideVals) {
			if err != nil || !reflect.DeepEqual(v, c11SideVals[sideN]) {
				r.Fail("value-mismatch", "second-decoder-disturbed", "a second Decoder used in turns with the first returned %v, %v for its value #%d, expected %v", show(v), err, sideN, show(c11SideVals[sideN]))
				return false
			}
		} else if err != io.EOF {
			r.Fail("terminal-error", "second-decoder-disturbed", "a second Decoder used in turns with the first returned %v, %v after its last value, expected io.EOF", show(v), err)
			return false
		}
		sideN++
		return true
	}
	prevOff := int64(0)
	var got int
	var gotVals []any
	var termErr error
	eofFinal := final == io.EOF
	for {
		if !sideStep() {
			return
		}
		if sc.UseNumberAt > 0 && got == sc.UseNumberAt {
			dec.UseNumber()
			r.Fault("option-set-in-the-middle-of-a-stream")
		}
		var v any
		var err error
		switch mode {
		case c11Raw:
			var raw json.RawMessage
			err = dec.Decode(&raw)
			v = []byte(raw)
		case c11Struct_:
			var x c11StructSeg
			err = dec.Decode(&x)
			v = c11NormStruct(x)
		default:
			err = dec.Decode(&v)
			v = c11NormAny(v)
		}
		off := dec.InputOffset()
		r.Event("decode #%d err=%v off=%d", got, err, off)
		if off < prevOff {
			r.Fail("offset-decreased", "offset-decreased", "InputOffset went from %d to %d at Decode #%d (err=%v)", prevOff, off, got, err)
			return
		}
		prevOff = off
		if err != nil {
			termErr = err
			break
		}
		if got >= len(refVals) {
			r.Fail("extra-value", c11KeyExtra(stream, spans, got, v, tags), "Decode #%d returned a value %s but the reference yields only %d values from the %d delivered bytes (terminal %v)", got, show(v), len(refVals), cut, refTerm)
			return
		}
		if !reflect.DeepEqual(v, refVals[got]) {
			r.Fail("value-mismatch", c11KeyMismatch(stream, spans, got, v, tags, mode), "Decode #%d (%s): got %s, reference %s; value spans bytes [%d,%d) of the stream", got, c11ModeNames[mode], show(v), show(refVals[got]), spans[got].start, spans[got].end)
			return
		}
		// InputOffset window
		lo := int64(spans[got].end)
		hi := int64(cut)
		if got+1 < len(spans) {
			hi = int64(spans[got+1].start)
		} else {
			// no complete next value: the next value, if any, starts after the whitespace
			p := spans[got].end
			for p < cut && isWS(stream[p]) {
				p++
			}
			hi = int64(p)
		}
		if off < lo || off > hi {
			r.Fail("offset-window", c11KeyOffset(off, lo, hi), "after Decode #%d InputOffset=%d, expected within [%d,%d] (end of value, start of next)", got, off, lo, hi)
			return
		}
		// Buffered + unread == unconsumed input
		if got < 3 || r.Scenario != nil || t.Chance(1, 8) {
			r.Probe("buffered-checked")
			// every call of Buffered yields a reader of its own: one that is only
			// partly read is not disturbed by the next call
			var early io.Reader
			var earlyHead [3]byte
			earlyN := 0
			if got%3 == 1 {
				early = dec.Buffered()
				earlyN, _ = io.ReadFull(early, earlyHead[:])
			}
			buf, _ := io.ReadAll(dec.Buffered())
			if early != nil {
				rest, _ := io.ReadAll(early)
				if all := append(append([]byte(nil), earlyHead[:earlyN]...), rest...); !bytes.Equal(all, buf) {
					r.Fail("buffered-content", "buffered-readers-share-state", "after Decode #%d a reader returned by Buffered, read in two parts around another Buffered call, yields %d bytes (%q…), that other call's reader %d bytes", got, len(all), clip(all, 40), len(buf))
					return
				}
			}
			rest := len(buf) + len(rd.Unread())
			p := int64(cut - rest)
			if p < lo || p > hi {
				r.Fail("buffered-window", "buffered-window", "after Decode #%d Buffered (%d bytes) + unread reader remainder (%d bytes) start at stream offset %d, expected within [%d,%d]", got, len(buf), len(rd.Unread()), p, lo, hi)
				return
			}
			if !bytes.Equal(buf, stream[p:int(p)+len(buf)]) {
				r.Fail("buffered-content", "buffered-content", "after Decode #%d Buffered bytes differ from the stream at offset %d: %q vs %q", got, p, clip(buf, 60), clip(stream[p:int(p)+len(buf)], 60))
				return
			}
		}
		gotVals = append(gotVals, v)
		got++
		if got > len(fullSpans)+2 {
			break
		}
	}
	r.ProbeN("values-decoded", int64(got))
	// the values that were yielded are still those values once the later Decode
	// calls have refilled and compacted the read buffer
	for i, v := range gotVals {
		if !reflect.DeepEqual(v, refVals[i]) {
			r.Fail("value-mismatch", "value-changed-after-later-decodes", "the value Decode #%d (%s) yielded changed while later values were decoded: now %s, reference %s", i, c11ModeNames[mode], show(v), show(refVals[i]))
			return
		}
	}
	if len(rd.Batches) > 1 && len(gotVals) > 1 {
		r.Probe("values-rechecked-after-buffer-refills")
	}

	// ---- terminal behaviour ---------------------------------------------------
	cleanRef := refTerm == io.EOF
	missing := len(refVals) - got
	if eofFinal {
		if missing > 0 {
			r.Fail("missing-values", c11KeyMissing(termErr, cleanRef), "reader ended with io.EOF after %d bytes; reference yields %d values, Decode stopped after %d with %v", cut, len(refVals), got, termErr)
			return
		}
		if cleanRef && termErr != io.EOF {
			r.Fail("terminal-error", "clean-eof-not-eof", "clean end of input after %d values: expected io.EOF, got %v", got, termErr)
			return
		}
		if !cleanRef && (termErr == io.EOF || termErr == nil) {
			r.Fail("terminal-error", "truncated-reports-eof", "stream ends inside a value (reference: %v) but Decode returned %v", refTerm, termErr)
			return
		}
	} else {
		// reader failed with `final` at offset cut
		if missing > 1 || (missing == 1 && !lastIsOpenNumber) {
			// a shorter prefix is allowed by the statement ("a prefix of them")
			r.Probe("short-prefix-before-reader-error")
		}
		if termErr == nil || termErr == io.EOF {
			r.Fail("terminal-error", "reader-error-reported-as-eof:"+finalName, "reader failed with %v at offset %d (reference view of the delivered bytes: %d values then %v); Decode #%d returned %v", final, cut, len(refVals), refTerm, got, termErr)
			return
		}
		inside := !cleanRef || (missing >= 1 && lastIsOpenNumber && missing == 1)
		if !inside && !errors.Is(termErr, final) {
			r.Fail("terminal-error", "reader-error-replaced:"+finalName, "reader failed with %v at a clean boundary (offset %d, after %d complete values); Decode returned %v which is not the reader's error", final, cut, len(refVals), termErr)
			return
		}
		// "a prefix of them followed by the reader's error": also when the reader
		// fails inside a value its own error is what Decode reports
		if inside && !errors.Is(termErr, final) {
			r.Fail("terminal-error", "reader-error-replaced-inside-value:"+finalName, "reader failed with %v inside a value (offset %d, after %d complete values); Decode returned %v which is not the reader's error", final, cut, len(refVals), termErr)
			return
		}
	}
	// Buffered after the terminal condition: together with what the reader has
	// not handed out it is still the unconsumed input (the unfinished value
	// included); nothing when the input ended cleanly
	if eofFinal && missing == 0 {
		buf, _ := io.ReadAll(dec.Buffered())
		rest := len(buf) + len(rd.Unread())
		p := cut - rest
		lo := 0
		if n := len(spans); n > 0 {
			lo = spans[n-1].end
		}
		hi := lo
		for hi < cut && isWS(stream[hi]) {
			hi++
		}
		r.Probe("buffered-after-terminal-checked")
		if p < lo || p > hi || !bytes.Equal(buf, stream[p:p+len(buf)]) {
			r.Fail("buffered-window", "buffered-after-terminal", "after the terminal error (%v) Buffered has %d bytes and the reader %d unread: they start at stream offset %d, expected within [%d,%d] (end of the last value, start of the unfinished one) and equal to the stream there", termErr, len(buf), len(rd.Unread()), p, lo, hi)
			return
		}
	}
	// after the terminal error no further value may appear, and the kind of end
	// does not change: io.EOF stays io.EOF, an end inside a value stays an error
	// other than io.EOF
	r.Probe("terminal-rechecked")
	for i := 0; i < 2; i++ {
		var raw json.RawMessage
		err := dec.Decode(&raw)
		if err != nil && eofFinal && missing == 0 {
			if cleanRef && err != io.EOF {
				r.Fail("terminal-error", "clean-eof-not-sticky", "Decode call %d after a clean end of input returned %v instead of io.EOF", i+2, err)
				return
			}
			if !cleanRef && err == io.EOF {
				r.Fail("terminal-error", "truncated-reports-eof-later", "the stream ends inside a value (first error: %v) but Decode call %d after it returned a clean io.EOF", termErr, i+2)
				return
			}
		}
		off := dec.InputOffset()
		if off < prevOff {
			r.Fail("offset-decreased", "offset-decreased", "InputOffset went from %d to %d on a Decode after the terminal error", prevOff, off)
			return
		}
		prevOff = off
		if err == nil {
			r.Fail("extra-value", "value-after-terminal-error", "Decode returned value %q after it had already reported %v", clip(raw, 60), termErr)
			return
		}
	}

	// ---- Parse remainder (pure side check on the same workload) --------------
	if r.Scenario != nil || t.Chance(1, 4) {
		r.Probe("parse-remainder-checked")
		var raw json.RawMessage
		rem, err := json.Parse(stream, &raw, 0)
		want := []byte{}
		if len(fullSpans) > 1 {
			want = stream[fullSpans[1].start:]
		}
		if err != nil {
			r.Fail("parse-remainder", "parse-error", "Parse of a valid stream failed: %v", err)
			return
		}
		if !bytes.Equal(rem, want) {
			r.Fail("parse-remainder", "parse-remainder", "Parse remainder has %d bytes (%q…), expected the %d bytes from the start of the second value", len(rem), clip(rem, 40), len(want))
			return
		}
	}

	// ---- bookkeeping -----------------------------------------------------------
	r.SigAdd(fmt.Sprintf("%x", sigReads))
	c11CountFaults(r, rd, spans, stream, tags, cont, cut, final, finalName, cleanRef, finalWithData)
}

func c11CountFaults(r *core.Run, rd *simio.Reader, spans []c11Span, stream []byte, tags []byte, cont []bool, cut int, final error, finalName string, cleanRef, fwd bool) {
	if rd.ZeroReads > 0 {
		r.Faults["zero-read"] += int64(rd.ZeroReads)
		r.NonTrivial = true
	}
	if rd.DataWithErr > 0 {
		if final == io.EOF {
			r.Fault("data+eof")
		} else {
			r.Fault("data+err")
		}
		r.NonTrivial = true
	}
	if cut < len(stream) || final != io.EOF {
		r.NonTrivial = true
		switch {
		case final == io.EOF && cleanRef:
			r.Fault("eof-clean-early")
		case final == io.EOF:
			r.Fault("eof-inside-value")
		case cleanRef:
			r.Fault("err-at-boundary")
		default:
			r.Fault("err-inside-value")
		}
		switch finalName {
		case "ErrUnexpectedEOF":
			r.Fault("err-kind-unexpected-eof")
		case "ErrInjected":
			r.Fault("err-kind-custom")
		case "ErrWrapped":
			r.Fault("err-kind-wrapped")
		case "ErrWrapsEOF":
			r.Fault("err-kind-wraps-eof")
		}
	}
	if len(rd.Batches) > 0 {
		r.Probe("refills>1")
		for _, sp := range spans {
			if sp.end-sp.start > rd.Batches[0] {
				r.Probe("value-longer-than-first-read-batch")
				break
			}
		}
		for _, off := range rd.Batches {
			if off < len(stream) && cont[off] {
				switch tags[off] {
				case gen.TagNum:
					r.Probe("batch-boundary-inside-number")
				case gen.TagWS:
				default:
					r.Probe("batch-boundary-inside-token")
				}
			} else if off < len(stream) && off > 0 && tags[off] == gen.TagWS && tags[off-1] == gen.TagWS {
				r.Probe("batch-boundary-inside-whitespace")
			}
		}
	}
}

// c11PickOffset picks where the stream is torn / fails, biased inside
// in-flight state.
func c11PickOffset(r *core.Run, s []byte, tags []byte, cont []bool, spans []c11Span) int {
	t := r.T
	n := len(s)
	if n == 0 {
		return 0
	}
	want := byte(0)
	switch t.Pick(2, 3, 2, 2, 2, 1, 3, 1, 1) {
	case 0: // uniform
		return t.Intn(n + 1)
	case 1:
		want = gen.TagNum
	case 2:
		want = gen.TagStr
	case 3:
		want = gen.TagEsc
	case 4:
		want = gen.TagRune
	case 5:
		want = gen.TagLit
	case 6: // exactly at a value boundary (end of a value)
		sp := spans[t.Intn(len(spans))]
		return sp.end
	case 7: // just before a value starts
		sp := spans[t.Intn(len(spans))]
		return sp.start
	case 8: // near a power-of-two offset
		k := 9 + t.Intn(9)
		off := (1 << k) + t.Intn(7) - 3
		if off > n {
			off = n
		}
		return off
	}
	start := t.Intn(n)
	for i := 0; i < n; i++ {
		k := (start + i) % n
		if tags[k] == want && cont[k] {
			return k
		}
	}
	return start
}

var c11SmallChunks = []int{1, 2, 3, 7}

func c11Script(r *core.Run, rd *simio.Reader, mode int, n int) {
	t := r.T
	zeroP := 0
	if t.Chance(1, 3) {
		zeroP = t.Range(1, 4)
	}
	add := func(k int) {
		if zeroP > 0 && t.Chance(zeroP, 16) {
			rd.Script = append(rd.Script, simio.Event{N: 0})
		}
		rd.Script = append(rd.Script, simio.Event{N: k})
	}
	pow := func() int {
		k := 9 + t.Intn(9)
		return (1 << k) + t.Intn(7) - 3
	}
	rd.Tail = 1 << 20
	switch mode {
	case 0: // everything in one read (the trivial schedule of the test suite)
		rd.Tail = n + 1
	case 1: // tiny fixed chunks
		rd.Tail = c11SmallChunks[t.Intn(len(c11SmallChunks))]
		if n > 20000 && rd.Tail < 3 {
			rd.Tail = 3 + t.Intn(5)
		}
	case 2: // random small
		for i := 0; i < 64; i++ {
			add(t.Range(1, 16))
		}
		rd.Tail = t.Range(1, 64)
		if n > 20000 {
			rd.Tail += 16
		}
	case 3: // around powers of two
		for i := 0; i < 24; i++ {
			add(pow())
		}
		rd.Tail = pow()
	case 4: // aligned: the read boundary lands within ±3 of a power-of-two running offset
		off := 0
		for i := 0; i < 24 && off < n; i++ {
			k := 9 + t.Intn(9)
			b := ((off >> k) + 1) << k
			c := b - off + t.Intn(7) - 3
			if c < 1 {
				c = 1
			}
			add(c)
			off += c
		}
		rd.Tail = pow()
	default: // mix
		for i := 0; i < 48; i++ {
			switch t.Intn(3) {
			case 0:
				add(t.Range(1, 9))
			case 1:
				add(pow())
			default:
				add(t.Range(10, 5000))
			}
		}
		rd.Tail = t.Range(1, 9000)
	}
	if rd.Tail < 1 {
		rd.Tail = 1
	}
}

// c11ZeroRun inserts a long run of zero-length reads (legal for an io.Reader, if
// discouraged) into the script: at the very start, right after a read that
// fills the initial buffer completely, or somewhere in the script.  Only C11
// uses it (its statement names zero-length reads).
func c11ZeroRun(r *core.Run, rd *simio.Reader) {
	t := r.T
	if t.Chance(1, 12) {
		k := []int{99, 100, 101, 150, 199, 200, 300}[t.Intn(7)]
		zeros := make([]simio.Event, k)
		switch t.Intn(3) {
		case 0:
			rd.Script = append(zeros, rd.Script...)
		case 1:
			rd.Script = append(append([]simio.Event{{N: 32768}}, zeros...), rd.Script...)
		default:
			at := t.Intn(len(rd.Script) + 1)
			rd.Script = append(rd.Script[:at:at], append(zeros, rd.Script[at:]...)...)
		}
		r.Fault("long-run-of-zero-length-reads")
	}
}

func scriptHead(s []simio.Event, n int) []int {
	var out []int
	for i := 0; i < len(s) && i < n; i++ {
		out = append(out, s[i].N)
	}
	return out
}

// ---- witness classification (narrow keys for known findings) ---------------

func c11KeyExtra(stream []byte, spans []c11Span, i int, v any, tags []byte) string {
	return "extra-value"
}

// c11KeyMismatch classifies a value mismatch: the typical genuine defect is a
// number split in two.
func c11KeyMismatch(stream []byte, spans []c11Span, i int, v any, tags []byte, mode int) string {
	if mode == c11Raw {
		got, _ := v.([]byte)
		sp := spans[i]
		// is `got` a proper prefix of the reference number, or a suffix of the
		// previous reference number?
		ref := stream[sp.start:sp.end]
		if tags[sp.start] == gen.TagNum && len(got) < len(ref) && bytes.HasPrefix(ref, got) {
			return "number-split:prefix-returned"
		}
		if i > 0 {
			prev := stream[spans[i-1].start:spans[i-1].end]
			if tags[spans[i-1].start] == gen.TagNum && len(got) < len(prev) && bytes.HasSuffix(prev, got) {
				return "number-split:suffix-returned"
			}
		}
	}
	return "value-mismatch:" + c11ModeNames[mode]
}

func c11KeyOffset(off, lo, hi int64) string {
	if off < lo {
		return "offset-before-value-end"
	}
	return "offset-after-next-value-start"
}

func c11KeyMissing(term error, clean bool) string {
	if term == io.EOF {
		return "values-lost-then-eof"
	}
	return "values-lost-then-error"
}

func clip(b []byte, n int) []byte {
	if len(b) <= n {
		return b
	}
	return b[:n]
}

func show(v any) string {
	var s string
	switch x := v.(type) {
	case []byte:
		s = fmt.Sprintf("%q", clip(x, 80))
		if len(x) > 80 {
			s += fmt.Sprintf("…(%d bytes)", len(x))
		}
		return s
	default:
		s = fmt.Sprintf("%#v", v)
	}
	if len(s) > 300 {
		s = s[:300] + "…"
	}
	return s
}
