package props

import (
	"reflect"
	"testing"

	"verifsim/gen"
	"verifsim/tape"

	"github.com/segmentio/encoding/proto"
)

func TestZooProto(t *testing.T) {
	for _, z := range zooFor(gen.Proto) {
		okc, fail := 0, 0
		for i := 0; i < 50; i++ {
			vg := &gen.Values{T: tape.New(uint64(i)), C: gen.Proto, MaxMap: 2}
			v := vg.New(z.rt)
			b, err := protoMarshalNoPanic(v.Interface())
			if err != nil {
				fail++
				if fail == 1 {
					t.Logf("%s: marshal: %v", z.name, err)
				}
				continue
			}
			x := reflect.New(z.rt)
			if err := proto.Unmarshal(b, x.Interface()); err != nil {
				t.Logf("%s: unmarshal: %v", z.name, err)
				fail++
				continue
			}
			okc++
		}
		t.Logf("%s ok=%d fail=%d kinds=%v", z.name, okc, fail, fieldKindsOf(z.rt))
	}
}
