package props

import (
	"bytes"
	stdjson "encoding/json"
	"fmt"
	"io"
	"reflect"
	"sort"
	"strconv"
	"strings"

	"verifsim/core"
	"verifsim/gen"
	"verifsim/tape"

	"github.com/segmentio/encoding/json"
)

// C02 (history dimension) — json decoding into a target that already holds
// data left by earlier decodes behaves like encoding/json.
//
// A stateful object (the decode target) is driven by a sequence of decodes and
// compared with an executable reference model (encoding/json applied to an
// isomorphic target) after every step.

func init() {
	core.Register(&core.Property{
		ID: "C02", Level: "exploration", Engine: "hist",
		Quick: 300000, Thorough: 12000000,
		Run:        runC02,
		Rule:       "one run = one generated target type, an initial target state (zero or pre-populated: non-nil maps, slices, pointers, pointers to pointers, interface fields holding pointers) and a history of 2..8 decodes into the same target through Unmarshal / Parse(b,x,0) / Decoder.Decode with each subset of {UseNumber, DisallowUnknownFields}, mirrored step by step on encoding/json with an isomorphic target; documents are encoding/json's own encoding of fresh values of the type, mutated at the value-tree level (always syntactically valid JSON). non-trivial = at least one decode after the first hit a target that already held data (a non-empty prior state); distinct = distinct hash of (type, initial state, documents, entry points)",
		FaultKinds: []string{"prior-state:prepopulated", "prior-state:left-by-earlier-decode", "prior-state:after-failed-decode(rebuilt)", "doc:null-subvalue", "doc:key-dropped", "doc:unknown-key", "doc:duplicate-key", "doc:key-case-changed", "doc:array-shortened", "doc:array-lengthened", "doc:kind-swapped", "doc:integer-boundary", "doc:quoted-literal", "doc:top-level-empty", "entry:Unmarshal", "entry:Parse", "entry:Decoder", "entry:Decoder+UseNumber", "entry:Decoder+DisallowUnknownFields", "entry:Decoder-stream(one Decoder, successive values into one target)", "stream-document-straddles-first-buffer-fill", "option-switched-on-between-two-decodes"},
		ProbeNames: []string{"steps", "steps-both-ok", "steps-both-failed", "map-merged-into-non-empty", "slice-reused-with-capacity", "pointer-reused", "interface-held-pointer-present", "input-dimension-divergence-on-fresh-target(skipped, not claimed)"},
		Real:       []string{"json.Unmarshal, json.Parse, json.Decoder and the whole decode path compiled from /repo's working tree with sync and sync/atomic redirected to the shim (deterministic simulated sync.Pool, pristine library state before every run)"},
		Model:      []string{"reference model: encoding/json of the toolchain applied to an isomorphic target, step by step"},
		Assumptions: []string{
			"scope: the history dimension of C02 (prior states of the target); documents x types are sampled as carriers, the input dimension (integer grammar, escapes, the 32-field keyset switch, ',string' corner cases) is not claimed",
			"error messages, concrete error types and target content after a failed decode are not compared; after a failed step both targets are rebuilt by replaying the successful prefix with encoding/json",
			"time.Duration and time.Time fields are not generated",
		},
	})
}

// ---- ordered JSON tree ---------------------------------------------------------

type jnode struct {
	kind byte // 'o' object, 'a' array, 's' string, 'n' number, 'l' literal
	raw  string
	keys []string // raw (quoted) keys
	kids []*jnode
}

func jparse(b []byte) *jnode {
	dec := stdjson.NewDecoder(bytes.NewReader(b))
	dec.UseNumber()
	var parseValue func() *jnode
	parseValue = func() *jnode {
		tk, err := dec.Token()
		if err != nil {
			core.Harness("C02: cannot parse reference document: %v", err)
		}
		switch v := tk.(type) {
		case stdjson.Delim:
			if v == '{' {
				n := &jnode{kind: 'o'}
				for dec.More() {
					kt, _ := dec.Token()
					kb, _ := stdjson.Marshal(kt.(string))
					n.keys = append(n.keys, string(kb))
					n.kids = append(n.kids, parseValue())
				}
				dec.Token()
				return n
			}
			n := &jnode{kind: 'a'}
			for dec.More() {
				n.kids = append(n.kids, parseValue())
			}
			dec.Token()
			return n
		case string:
			sb, _ := stdjson.Marshal(v)
			return &jnode{kind: 's', raw: string(sb)}
		case stdjson.Number:
			return &jnode{kind: 'n', raw: string(v)}
		case bool:
			return &jnode{kind: 'l', raw: strconv.FormatBool(v)}
		default:
			return &jnode{kind: 'l', raw: "null"}
		}
	}
	return parseValue()
}

func (n *jnode) append(b []byte) []byte {
	switch n.kind {
	case 'o':
		b = append(b, '{')
		for i := range n.kids {
			if i > 0 {
				b = append(b, ',')
			}
			b = append(b, n.keys[i]...)
			b = append(b, ':')
			b = n.kids[i].append(b)
		}
		return append(b, '}')
	case 'a':
		b = append(b, '[')
		for i := range n.kids {
			if i > 0 {
				b = append(b, ',')
			}
			b = n.kids[i].append(b)
		}
		return append(b, ']')
	}
	return append(b, n.raw...)
}

func (n *jnode) all(out *[]*jnode) {
	*out = append(*out, n)
	for _, k := range n.kids {
		k.all(out)
	}
}

var intBoundaryLits = []string{"127", "128", "-128", "-129", "255", "256", "32767", "32768", "-32769", "65535", "65536", "2147483647", "2147483648", "-2147483649", "4294967295", "4294967296", "9223372036854775807", "9223372036854775808", "-9223372036854775808", "-9223372036854775809", "18446744073709551615", "18446744073709551616", "0", "-0", "-1", "1.0", "1e2", "1.5", "1E+2", "100000000000000000000"}

func scalarOfKind(t *tape.Tape, k int) *jnode {
	switch k {
	case 0:
		return &jnode{kind: 'n', raw: strconv.Itoa(t.Intn(300) - 100)}
	case 1:
		return &jnode{kind: 's', raw: `"s` + strconv.Itoa(t.Intn(100)) + `"`}
	case 2:
		return &jnode{kind: 'l', raw: []string{"true", "false"}[t.Intn(2)]}
	case 3:
		return &jnode{kind: 'o'}
	case 4:
		return &jnode{kind: 'a'}
	case 5:
		return &jnode{kind: 's', raw: `"` + strconv.Itoa(t.Intn(300)-100) + `"`}
	default:
		return &jnode{kind: 'l', raw: "null"}
	}
}

// jmutate applies 0..3 value-tree mutations; it returns the kinds applied.
func jmutate(t *tape.Tape, root *jnode) (*jnode, []string) {
	var applied []string
	n := t.Pick(3, 4, 2, 1)
	for i := 0; i < n; i++ {
		var nodes []*jnode
		root.all(&nodes)
		x := nodes[t.Intn(len(nodes))]
		switch t.Pick(3, 2, 2, 2, 2, 2, 2, 3, 3, 2, 1) {
		case 0: // sub-value -> null
			*x = jnode{kind: 'l', raw: "null"}
			applied = append(applied, "doc:null-subvalue")
		case 1: // drop a key
			if x.kind == 'o' && len(x.kids) > 0 {
				j := t.Intn(len(x.kids))
				x.keys = append(x.keys[:j:j], x.keys[j+1:]...)
				x.kids = append(x.kids[:j:j], x.kids[j+1:]...)
				applied = append(applied, "doc:key-dropped")
			}
		case 2: // unknown key
			if x.kind == 'o' {
				j := t.Intn(len(x.kids) + 1)
				x.keys = append(x.keys[:j:j], append([]string{`"unknown_` + strconv.Itoa(t.Intn(9)) + `"`}, x.keys[j:]...)...)
				x.kids = append(x.kids[:j:j], append([]*jnode{scalarOfKind(t, t.Intn(7))}, x.kids[j:]...)...)
				applied = append(applied, "doc:unknown-key")
			}
		case 3: // duplicate a key with another value
			if x.kind == 'o' && len(x.kids) > 0 {
				j := t.Intn(len(x.kids))
				var dup *jnode
				if t.Bool() {
					dup = scalarOfKind(t, t.Intn(7))
				} else {
					c := *x.kids[j]
					dup = &c
				}
				x.keys = append(x.keys, x.keys[j])
				x.kids = append(x.kids, dup)
				applied = append(applied, "doc:duplicate-key")
			}
		case 4: // change the case of a key
			if x.kind == 'o' && len(x.kids) > 0 {
				j := t.Intn(len(x.kids))
				k := x.keys[j]
				if t.Bool() {
					k = strings.ToUpper(k)
				} else {
					k = strings.ToLower(k)
				}
				if k != x.keys[j] && !strings.Contains(k, `\`) {
					x.keys[j] = k
					applied = append(applied, "doc:key-case-changed")
				}
			}
		case 5: // shorten an array
			if x.kind == 'a' && len(x.kids) > 0 {
				x.kids = x.kids[:t.Intn(len(x.kids))]
				applied = append(applied, "doc:array-shortened")
			}
		case 6: // lengthen an array
			if x.kind == 'a' {
				k := t.Range(1, 4)
				for j := 0; j < k; j++ {
					if len(x.kids) > 0 && t.Chance(2, 3) {
						c := *x.kids[t.Intn(len(x.kids))]
						x.kids = append(x.kids, &c)
					} else {
						x.kids = append(x.kids, scalarOfKind(t, t.Intn(7)))
					}
				}
				applied = append(applied, "doc:array-lengthened")
			}
		case 7: // swap the kind of a value
			*x = *scalarOfKind(t, t.Intn(7))
			applied = append(applied, "doc:kind-swapped")
		case 8: // integer at / beyond a width boundary
			if x.kind == 'n' {
				x.raw = intBoundaryLits[t.Intn(len(intBoundaryLits))]
				applied = append(applied, "doc:integer-boundary")
			}
		case 9: // a quoted literal: "null", "true", "12", "" (what ',string' fields and Number read)
			*x = jnode{kind: 's', raw: []string{`"null"`, `"true"`, `"false"`, `"12"`, `"-3"`, `""`, `"1.5"`, `" 7"`}[t.Intn(8)]}
			applied = append(applied, "doc:quoted-literal")
		default: // top-level empty / null
			root = scalarOfKind(t, 3+t.Intn(4))
			applied = append(applied, "doc:top-level-empty")
		}
	}
	return root, applied
}

// ---- targets ---------------------------------------------------------------------

// C02Rich is a static target with every shape the history clause names.
type C02Rich struct {
	M   map[string]int
	MS  map[string]*ZInner
	S   []int
	SS  []ZInner
	SP  []*ZInner
	P   *ZInner
	PP  **int
	I   any
	A   [3]int
	AS  [2]ZInner
	B   []byte
	N   json.Number
	R   json.RawMessage
	Str string `json:"str,omitempty"`
	Q   int    `json:"q,string"`
	E   ZEmb
	MI  map[int]string
	L   [][]string
	IP  *any
	NA  C02Any
	NAS []C02Any
	PQ  *int     `json:"pq,string"`
	PU  *uint8   `json:"pu,string"`
	PB  *bool    `json:"pb,string"`
	PF  *float64 `json:"pf,string"`
	PS  *string  `json:"ps,string"`
}

// C02Ptrs has several pointer fields of each scalar kind (what one decode
// allocates must not be shared with what another field points to).
type C02Ptrs struct {
	A, B, C *bool
	I, J    *int
	S, T    *string
	F, G    *float64
	L       []*bool
	M       map[string]*bool
	X, Y    any
	MA, MB  map[string]any
	LA, LB  []int
}

type c02inner struct {
	IA int
	IB string `json:"ib"`
}

// C02Emb embeds a pointer to an unexported struct: encoding/json cannot allocate
// it, but decodes through it when the caller has set it.
type C02Emb struct {
	*c02inner
	X int
	*ZPInner
}

// C02Any is a named empty interface: the library routes it through another
// decoder than plain `any`.
type C02Any interface{}

func c02Type(t *tape.Tape) (reflect.Type, string) {
	switch t.Pick(4, 5, 1, 1, 1, 1, 2) {
	case 6:
		return reflect.TypeOf(C02Ptrs{}), "C02Ptrs"
	case 5:
		return reflect.TypeOf(C02Emb{}), "C02Emb"
	case 0:
		return reflect.TypeOf(C02Rich{}), "C02Rich"
	case 1:
		n := t.Intn(gen.ShapeSpace)
		return gen.Shape(gen.JSON, n, false, false), fmt.Sprintf("json-shape-%d", n)
	case 2:
		return reflect.TypeOf(ZRec{}), "ZRec"
	case 3:
		return reflect.TypeOf(map[string]any{}), "map[string]any"
	default:
		return reflect.TypeOf(ZMarshalers{}), "ZMarshalers"
	}
}

var ifacePtrTypes = []reflect.Type{reflect.TypeOf(0), reflect.TypeOf(""), reflect.TypeOf(map[string]any{}), reflect.TypeOf([]int{}), reflect.TypeOf(ZInner{}), reflect.TypeOf([]any{})}

// seedIfacePointers puts pointers into some empty-interface fields ("interface-held pointers").
func seedIfacePointers(t *tape.Tape, v reflect.Value, depth int) int {
	n := 0
	if depth > 6 {
		return 0
	}
	switch v.Kind() {
	case reflect.Interface:
		if v.NumMethod() == 0 && v.CanSet() && t.Chance(1, 3) {
			pt := ifacePtrTypes[t.Intn(len(ifacePtrTypes))]
			p := reflect.New(pt)
			switch t.Pick(6, 1, 2) {
			case 0:
				(&gen.Values{T: t, C: gen.JSON, MaxMap: 2, MaxLen: 3}).Fill(p.Elem())
				v.Set(p)
			case 1:
				// an interface holding a typed nil pointer
				v.Set(reflect.Zero(reflect.PointerTo(pt)))
			default:
				// an interface holding a plain (non-pointer) value
				(&gen.Values{T: t, C: gen.JSON, MaxMap: 2, MaxLen: 3}).Fill(p.Elem())
				v.Set(p.Elem())
			}
			n++
		}
	case reflect.Ptr:
		if !v.IsNil() {
			n += seedIfacePointers(t, v.Elem(), depth+1)
		}
	case reflect.Struct:
		for i := 0; i < v.NumField(); i++ {
			if v.Type().Field(i).PkgPath == "" {
				n += seedIfacePointers(t, v.Field(i), depth+1)
			}
		}
	case reflect.Slice, reflect.Array:
		for i := 0; i < v.Len(); i++ {
			n += seedIfacePointers(t, v.Index(i), depth+1)
		}
	case reflect.Map:
		// a caller may have stored pointers under keys of a map of interfaces
		if v.Type().Elem().Kind() == reflect.Interface && v.Type().Elem().NumMethod() == 0 && !v.IsNil() {
			keys := v.MapKeys()
			sort.Slice(keys, func(i, j int) bool { return fmt.Sprint(keys[i]) < fmt.Sprint(keys[j]) })
			for _, k := range keys {
				if t.Chance(1, 3) {
					pt := ifacePtrTypes[t.Intn(len(ifacePtrTypes))]
					p := reflect.New(pt)
					(&gen.Values{T: t, C: gen.JSON, MaxMap: 2, MaxLen: 3}).Fill(p.Elem())
					v.SetMapIndex(k, p)
					n++
				}
			}
		}
	}
	return n
}

// c02State builds the initial target state from the draws in seg.
func c02State(seg []uint32, rt reflect.Type) (reflect.Value, int) {
	t := tape.Replay(seg)
	p := reflect.New(rt)
	if e, ok := p.Interface().(*C02Emb); ok {
		// the caller may have set the embedded pointers itself
		if t.Chance(2, 3) {
			e.c02inner = &c02inner{IA: t.Intn(100), IB: "preset"}
			if t.Bool() {
				e.ZPInner = &ZPInner{C: 1.5}
			}
			e.X = t.Intn(10)
			return p, 1
		}
		return p, 0
	}
	if t.Chance(2, 3) {
		(&gen.Values{T: t, C: gen.JSON, MaxMap: 3, MaxLen: 4}).Fill(p.Elem())
		n := seedIfacePointers(t, p.Elem(), 0)
		n += seedIfaceSlices(t, p.Elem())
		return p, n + 1
	}
	return p, 0
}

// seedIfaceSlices (draws come after all others of the state, and a zero draw
// means "no": recorded states keep their meaning) puts []any values whose
// elements include non-nil pointers into empty-interface fields, and lets two
// such fields share one slice.
func seedIfaceSlices(t *tape.Tape, v reflect.Value) int {
	var ifs []reflect.Value
	var walk func(v reflect.Value, depth int)
	walk = func(v reflect.Value, depth int) {
		if depth > 3 {
			return
		}
		switch v.Kind() {
		case reflect.Interface:
			if v.NumMethod() == 0 && v.CanSet() {
				ifs = append(ifs, v)
			}
		case reflect.Ptr:
			if !v.IsNil() {
				walk(v.Elem(), depth+1)
			}
		case reflect.Struct:
			for i := 0; i < v.NumField(); i++ {
				if v.Type().Field(i).PkgPath == "" {
					walk(v.Field(i), depth+1)
				}
			}
		}
	}
	walk(v, 0)
	n := 0
	var held []reflect.Value
	for _, f := range ifs {
		if t.Intn(4) == 3 {
			i, z := 7, ZInner{}
			s := []any{&i, "s", &z, 1.5, nil, []any{&i}}[:2+t.Intn(5)]
			f.Set(reflect.ValueOf(s))
			held = append(held, f)
			n++
		}
	}
	if len(held) >= 2 && t.Intn(3) == 2 {
		held[1].Set(held[0].Elem()) // two fields share one slice
		n++
	}
	// two fields of one map type share one map: as filled, or empty but not nil
	if p, ok := v.Addr().Interface().(*C02Ptrs); ok {
		switch t.Intn(5) {
		case 3:
			if p.MA == nil {
				p.MA = map[string]any{}
			}
			p.MB = p.MA
			n++
		case 4:
			p.MA = map[string]any{}
			p.MB = p.MA
			n++
		}
		if t.Intn(4) == 3 && p.LA != nil {
			p.LB = p.LA
			n++
		}
	}
	return n
}

type c02Step struct {
	Entry int    `json:"entry"` // 0 Unmarshal, 1 Parse, 2 Decoder, 3 Decoder+UseNumber, 4 Decoder+DisallowUnknownFields, 5 Decoder+both
	Doc   []byte `json:"doc"`
}

type c02Scenario struct {
	Type  string    `json:"type"`
	State []uint32  `json:"state"`
	Steps []c02Step `json:"steps"`
	// Stream: all steps are successive Decode calls on ONE Decoder per library
	// (entry 2..5 of the first step gives the flags) over the concatenated
	// documents: the history lives inside a single Decoder.
	Stream bool `json:"stream,omitempty"`
	// Pad: spaces in front of a stream (a document then straddles a buffer fill).
	Pad int `json:"pad,omitempty"`
	// OptAt > 0: before the Decode of step OptAt the options of entry OptEntry are
	// switched on (stream mode).
	OptAt    int `json:"opt_at,omitempty"`
	OptEntry int `json:"opt_entry,omitempty"`
	// Preset names a hand-built initial state (literal witnesses): "iface-ptr-int"
	// = a C02Rich whose I holds a *int and whose IP points to an interface
	// holding a *int.
	Preset string `json:"preset,omitempty"`
	// NoScopeGuard (literal witnesses only): report a divergence even when it
	// already shows on a fresh zero target.
	NoScopeGuard bool `json:"no_scope_guard,omitempty"`
}

var c02EntryNames = []string{"Unmarshal", "Parse(b,x,0)", "Decoder.Decode", "Decoder.Decode+UseNumber", "Decoder.Decode+DisallowUnknownFields", "Decoder.Decode+UseNumber+DisallowUnknownFields"}

func c02TypeByName(name string) reflect.Type {
	switch name {
	case "C02Rich":
		return reflect.TypeOf(C02Rich{})
	case "C02Emb":
		return reflect.TypeOf(C02Emb{})
	case "C02Ptrs":
		return reflect.TypeOf(C02Ptrs{})
	case "ZRec":
		return reflect.TypeOf(ZRec{})
	case "map[string]any":
		return reflect.TypeOf(map[string]any{})
	case "ZMarshalers":
		return reflect.TypeOf(ZMarshalers{})
	}
	var n int
	if _, err := fmt.Sscanf(name, "json-shape-%d", &n); err == nil {
		return gen.Shape(gen.JSON, n, false, false)
	}
	core.Harness("C02 scenario: unknown type %q", name)
	return nil
}

var (
	c02Arena []byte
	c02Calls int
)

func segDecode(entry int, doc []byte, x any) (err error, pan string) {
	defer func() {
		if e := recover(); e != nil {
			pan = fmt.Sprintf("%v\n%s", e, stackOfLibrary())
		}
	}()
	// the caller recycles the buffer it passed once the call has returned (no
	// zero-copy flag is set, so the target owns everything it holds)
	// ... and it is the same buffer for every call of the run: same address, new content
	if cap(c02Arena) < len(doc)+8 {
		c02Arena = make([]byte, 2*len(doc)+64)
	}
	c02Calls++
	off := (c02Calls & 1) * 5
	own := c02Arena[off : off+len(doc) : off+len(doc)]
	if c02Calls%3 == 0 && cap(c02Arena) >= off+len(doc)+len(c17Behind) {
		// a window into a larger buffer of the caller's: what lies behind len is not input
		own = c02Arena[off : off+len(doc)]
		copy(c02Arena[off+len(doc):], c17Behind)
	}
	copy(own, doc)
	defer func() {
		for i := range own {
			own[i] = '#'
		}
	}()
	switch entry {
	case 0:
		err = json.Unmarshal(own, x)
	case 1:
		var rem []byte
		rem, err = json.Parse(own, x, 0)
		if err == nil && len(rem) != 0 {
			err = fmt.Errorf("trailing data")
		}
	default:
		dec := json.NewDecoder(bytes.NewReader(doc))
		if entry == 3 || entry == 5 {
			dec.UseNumber()
		}
		if entry == 4 || entry == 5 {
			dec.DisallowUnknownFields()
		}
		err = dec.Decode(x)
	}
	return
}

func stdDecode(entry int, doc []byte, x any) error {
	switch entry {
	case 0, 1:
		return stdjson.Unmarshal(doc, x)
	default:
		dec := stdjson.NewDecoder(bytes.NewReader(doc))
		if entry == 3 || entry == 5 {
			dec.UseNumber()
		}
		if entry == 4 || entry == 5 {
			dec.DisallowUnknownFields()
		}
		return dec.Decode(x)
	}
}

func c02GenScenario(r *core.Run) *c02Scenario {
	t := r.T
	rt, name := c02Type(t)
	sc := &c02Scenario{Type: name}
	start := t.Len()
	// draw the state segment: generate once to consume the draws, then record them
	st := tape.New(t.Uint64())
	_ = start
	tmp := reflect.New(rt)
	if _, ok := tmp.Interface().(*C02Emb); ok {
		if st.Chance(2, 3) {
			st.Intn(100)
			st.Bool()
			st.Intn(10)
		}
	} else if st.Chance(2, 3) {
		(&gen.Values{T: st, C: gen.JSON, MaxMap: 3, MaxLen: 4}).Fill(tmp.Elem())
		seedIfacePointers(st, tmp.Elem(), 0)
		seedIfaceSlices(st, tmp.Elem())
	}
	sc.State = append([]uint32(nil), st.Record()...)
	nsteps := t.Range(2, 8)
	if r.Tier == "thorough" && t.Chance(1, 3) {
		nsteps = t.Range(8, 20) // longer histories in the thorough tier
	}
	for i := 0; i < nsteps; i++ {
		vg := &gen.Values{T: t, C: gen.JSON, MaxMap: 3, MaxLen: 4}
		v := vg.New(rt)
		b, err := stdjson.Marshal(v.Interface())
		if err != nil {
			b = []byte("{}")
		}
		if name == "C02Emb" {
			// name the fields promoted from the embedded pointers (a fresh value
			// has nil pointers there, so its own encoding never mentions them)
			m := map[string]any{}
			for _, k := range []string{"IA", "ib", "X", "C", "D"} {
				if t.Bool() {
					switch k {
					case "ib":
						m[k] = vg.String()
					case "D":
						m[k] = []byte(vg.String())
					case "C":
						m[k] = 2.5
					default:
						m[k] = t.Intn(1000)
					}
				}
			}
			b, _ = stdjson.Marshal(m)
		}
		root := jparse(b)
		root, kinds := jmutate(t, root)
		for _, k := range kinds {
			r.Fault(k)
		}
		doc := root.append(nil)
		if !stdjson.Valid(doc) {
			core.Harness("C02: mutated document is not valid JSON: %q", clip(doc, 200))
		}
		sc.Steps = append(sc.Steps, c02Step{Entry: t.Pick(4, 3, 2, 1, 1, 1), Doc: doc})
	}
	if t.Chance(1, 5) {
		sc.Stream = true
		e := 2 + t.Intn(4)
		for i := range sc.Steps {
			sc.Steps[i].Entry = e
		}
		if e < 5 && len(sc.Steps) > 1 && t.Chance(1, 4) {
			// an option switched on between two Decodes of the stream
			sc.OptAt = 1 + t.Intn(len(sc.Steps)-1)
			sc.OptEntry = map[int][]int{2: {3, 4, 5}, 3: {5}, 4: {5}}[e][t.Intn(len(map[int][]int{2: {3, 4, 5}, 3: {5}, 4: {5}}[e]))]
		}
		if t.Chance(1, 6) {
			// one of the documents is large (an unknown member of 30..40 KB in front):
			// the Decoder's buffer has to grow in the middle of the stream
			k := t.Intn(len(sc.Steps))
			if d := sc.Steps[k].Doc; len(d) > 1 && d[0] == '{' {
				big := append([]byte(`{"zzbig":"`), bytes.Repeat([]byte{'x'}, 30000+t.Intn(10000))...)
				big = append(big, '"')
				if d[1] != '}' {
					big = append(big, ',')
				}
				sc.Steps[k].Doc = append(big, d[1:]...)
			}
		}
		if t.Chance(1, 3) {
			// leading whitespace that makes one of the documents straddle the
			// Decoder's first buffer fill (32 KiB)
			k := t.Intn(len(sc.Steps))
			off := 0
			for i := 0; i < k; i++ {
				off += len(sc.Steps[i].Doc) + 1
			}
			if n := len(sc.Steps[k].Doc); n > 1 && off < 32768 {
				sc.Pad = 32768 - off - 1 - t.Intn(n-1)
				if sc.Pad < 0 {
					sc.Pad = 0
				}
			}
		}
	}
	return sc
}

func runC02(r *core.Run) {
	resetLibrary()
	c02Calls = 0
	var sc *c02Scenario
	if r.Scenario != nil {
		sc = &c02Scenario{}
		if err := stdjson.Unmarshal(r.Scenario, sc); err != nil {
			core.Harness("C02 scenario: %v", err)
		}
	} else {
		sc = c02GenScenario(r)
	}
	rt := c02TypeByName(sc.Type)
	seg, pre := c02State(sc.State, rt)
	std, _ := c02State(sc.State, rt)
	if sc.Preset == "iface-ptr-int" {
		mk := func() reflect.Value {
			n1, n2 := 5, 6
			var a any = &n2
			return reflect.ValueOf(&C02Rich{I: &n1, IP: &a})
		}
		seg, std, pre = mk(), mk(), 2
	}
	if sc.Preset == "iface-typed-nil-and-named" {
		// I holds a typed nil pointer; NA (a named empty interface) holds a plain value
		mk := func() reflect.Value {
			return reflect.ValueOf(&C02Rich{I: (*ZInner)(nil), NA: "before"})
		}
		seg, std, pre = mk(), mk(), 2
	}
	if !reflect.DeepEqual(seg.Interface(), std.Interface()) {
		core.Harness("C02: the two initial targets are not isomorphic")
	}
	if pre > 0 {
		r.Fault("prior-state:prepopulated")
		if pre > 1 {
			r.Probe("interface-held-pointer-present")
		}
	}
	r.SigAdd(sc.Type)
	r.SigAdd(fmt.Sprint(sc.State))
	if r.WantSample {
		var steps []string
		for _, s := range sc.Steps {
			steps = append(steps, fmt.Sprintf("%s %s", c02EntryNames[s.Entry], clip(s.Doc, 160)))
		}
		r.Sample = map[string]any{"type": clipStr(sc.Type+" "+rt.String(), 300), "prepopulated": pre > 0, "initial_state": clipStr(fmt.Sprintf("%+v", std.Elem().Interface()), 300), "steps": steps}
	}
	if sc.Stream {
		c02RunStream(r, sc, rt, seg, std)
		return
	}
	var okDocs []c02Step
	for i, s := range sc.Steps {
		r.Probe("steps")
		r.Steps++
		r.SigAddBytes(s.Doc)
		r.SigAdd(c02EntryNames[s.Entry])
		r.Fault("entry:" + []string{"Unmarshal", "Parse", "Decoder", "Decoder+UseNumber", "Decoder+DisallowUnknownFields", "Decoder+DisallowUnknownFields"}[s.Entry])
		nonEmptyPrior := !std.Elem().IsZero()
		if i > 0 && nonEmptyPrior {
			r.NonTrivial = true
			r.Fault("prior-state:left-by-earlier-decode")
		} else if pre > 0 {
			r.NonTrivial = true
		}
		c02Probes(r, std.Elem(), s.Doc)
		// Scope guard: this check decides the history dimension only.  If the two
		// libraries already disagree on this document with a *fresh zero* target,
		// the divergence belongs to C02's input dimension (documents x types),
		// which is not claimed: the step is skipped and counted.
		{
			f1, f2 := reflect.New(rt), reflect.New(rt)
			e1, pan := segDecode(s.Entry, append([]byte(nil), s.Doc...), f1.Interface())
			e2 := stdDecode(s.Entry, append([]byte(nil), s.Doc...), f2.Interface())
			if pan != "" {
				r.Fail("panic", "decode-panic:"+panicSite(pan), "step %d %s into a zero %s, document %s: panic: %s", i+1, c02EntryNames[s.Entry], sc.Type, clip(s.Doc, 300), pan)
				r.ScenarioOut = sc
				return
			}
			if !sc.NoScopeGuard && ((e1 == nil) != (e2 == nil) || (e1 == nil && !reflect.DeepEqual(f1.Interface(), f2.Interface()))) {
				r.Probe("input-dimension-divergence-on-fresh-target(skipped, not claimed)")
				continue
			}
		}
		docSeg := append([]byte(nil), s.Doc...)
		errSeg, pan := segDecode(s.Entry, docSeg, seg.Interface())
		errStd := stdDecode(s.Entry, append([]byte(nil), s.Doc...), std.Interface())
		where := fmt.Sprintf("step %d/%d %s into %s (target %s) document %s", i+1, len(sc.Steps), c02EntryNames[s.Entry], sc.Type, map[bool]string{true: "holding data", false: "zero"}[nonEmptyPrior], clip(s.Doc, 300))
		if pan != "" {
			r.Fail("panic", "decode-panic:"+panicSite(pan), "%s: panic: %s", where, pan)
			r.ScenarioOut = sc
			return
		}
		if (errSeg == nil) != (errStd == nil) {
			key := "accepted-but-encoding/json-rejects"
			if errSeg != nil {
				key = "rejected-but-encoding/json-accepts"
			}
			r.Fail("error-presence", key+":"+c02ErrClass(errSeg, errStd), "%s: segmentio err=%v, encoding/json err=%v", where, errSeg, errStd)
			r.ScenarioOut = sc
			return
		}
		if errStd != nil {
			r.Probe("steps-both-failed")
			// target content after a failed decode is outside the guarantee:
			// rebuild both targets from the successful prefix with encoding/json
			seg, _ = c02State(sc.State, rt)
			std, _ = c02State(sc.State, rt)
			for _, p := range okDocs {
				stdDecode(p.Entry, p.Doc, seg.Interface())
				stdDecode(p.Entry, p.Doc, std.Interface())
			}
			r.Fault("prior-state:after-failed-decode(rebuilt)")
			continue
		}
		r.Probe("steps-both-ok")
		okDocs = append(okDocs, s)
		if !reflect.DeepEqual(seg.Interface(), std.Interface()) {
			path, how := firstDiff(seg.Elem(), std.Elem(), "x", 0)
			if i := strings.Index(how, "ptr-to-ptr-null:"); i >= 0 {
				how = how[i:] // one finding whatever the container path
			}
			if r.Known("value-differs", "diff:"+how) {
				// on record: count it, resynchronise both targets from the
				// successful prefix with the reference and go on
				seg, _ = c02State(sc.State, rt)
				std, _ = c02State(sc.State, rt)
				for _, p := range okDocs {
					stdDecode(p.Entry, p.Doc, seg.Interface())
					stdDecode(p.Entry, p.Doc, std.Interface())
				}
				continue
			}
			r.Fail("value-differs", "diff:"+how, "%s: targets differ at %s (%s)\n segmentio:     %s\n encoding/json: %s", where, path, how, clipStr(fmt.Sprintf("%+v", deref(seg)), 600), clipStr(fmt.Sprintf("%+v", deref(std)), 600))
			r.ScenarioOut = sc
			return
		}
	}
}

// c02RunStream drives one Decoder per library over the concatenated documents,
// decoding every value into the same target.
func c02RunStream(r *core.Run, sc *c02Scenario, rt reflect.Type, seg, std reflect.Value) {
	var stream []byte
	if sc.Pad > 0 {
		stream = bytes.Repeat([]byte{' '}, sc.Pad)
		r.Fault("stream-document-straddles-first-buffer-fill")
	}
	for _, s := range sc.Steps {
		stream = append(stream, s.Doc...)
		stream = append(stream, '\n')
	}
	entry := sc.Steps[0].Entry
	r.Fault("entry:Decoder-stream(one Decoder, successive values into one target)")
	sd := json.NewDecoder(bytes.NewReader(append([]byte(nil), stream...)))
	rd := stdjson.NewDecoder(bytes.NewReader(append([]byte(nil), stream...)))
	if entry == 3 || entry == 5 {
		sd.UseNumber()
		rd.UseNumber()
	}
	if entry == 4 || entry == 5 {
		sd.DisallowUnknownFields()
		rd.DisallowUnknownFields()
	}
	for i, s := range sc.Steps {
		if sc.OptAt > 0 && i == sc.OptAt {
			if (sc.OptEntry == 3 || sc.OptEntry == 5) && entry != 3 && entry != 5 {
				sd.UseNumber()
				rd.UseNumber()
			}
			if (sc.OptEntry == 4 || sc.OptEntry == 5) && entry != 4 && entry != 5 {
				sd.DisallowUnknownFields()
				rd.DisallowUnknownFields()
			}
			entry = sc.OptEntry
			r.Fault("option-switched-on-between-two-decodes")
		}
		r.Probe("steps")
		r.Steps++
		r.SigAddBytes(s.Doc)
		// scope guard, as in the step-by-step mode
		f1, f2 := reflect.New(rt), reflect.New(rt)
		e1, pan := segDecode(entry, append([]byte(nil), s.Doc...), f1.Interface())
		e2 := stdDecode(entry, append([]byte(nil), s.Doc...), f2.Interface())
		if pan != "" {
			r.Fail("panic", "decode-panic:"+panicSite(pan), "document %s into a zero %s: panic: %s", clip(s.Doc, 300), sc.Type, pan)
			r.ScenarioOut = sc
			return
		}
		if (e1 == nil) != (e2 == nil) || (e1 == nil && !reflect.DeepEqual(f1.Interface(), f2.Interface())) {
			r.Probe("input-dimension-divergence-on-fresh-target(skipped, not claimed)")
			return // the two decoders can no longer be kept in step
		}
		if i > 0 && !std.Elem().IsZero() {
			r.NonTrivial = true
			r.Fault("prior-state:left-by-earlier-decode")
		}
		var errSeg error
		func() {
			defer func() {
				if e := recover(); e != nil {
					pan = fmt.Sprintf("%v\n%s", e, stackOfLibrary())
				}
			}()
			errSeg = sd.Decode(seg.Interface())
		}()
		errStd := rd.Decode(std.Interface())
		where := fmt.Sprintf("value %d/%d of one %s stream into %s, document %s", i+1, len(sc.Steps), c02EntryNames[entry], sc.Type, clip(s.Doc, 300))
		if pan != "" {
			r.Fail("panic", "decode-panic:"+panicSite(pan), "%s: panic: %s", where, pan)
			r.ScenarioOut = sc
			return
		}
		if (errSeg == nil) != (errStd == nil) {
			key := "accepted-but-encoding/json-rejects"
			if errSeg != nil {
				key = "rejected-but-encoding/json-accepts"
			}
			r.Fail("error-presence", key+":"+c02ErrClass(errSeg, errStd), "%s: segmentio err=%v, encoding/json err=%v", where, errSeg, errStd)
			r.ScenarioOut = sc
			return
		}
		if errStd != nil {
			r.Probe("steps-both-failed")
			return // after an error the position of either decoder in the stream is not comparable
		}
		r.Probe("steps-both-ok")
		if !reflect.DeepEqual(seg.Interface(), std.Interface()) {
			path, how := firstDiff(seg.Elem(), std.Elem(), "x", 0)
			if i := strings.Index(how, "ptr-to-ptr-null:"); i >= 0 {
				how = how[i:]
			}
			if r.Known("value-differs", "diff:"+how) {
				return
			}
			r.Fail("value-differs", "diff:"+how, "%s: targets differ at %s (%s)\n segmentio:     %s\n encoding/json: %s", where, path, how, clipStr(fmt.Sprintf("%+v", deref(seg)), 600), clipStr(fmt.Sprintf("%+v", deref(std)), 600))
			r.ScenarioOut = sc
			return
		}
	}
}

func deref(v reflect.Value) any { return v.Elem().Interface() }

func c02ErrClass(a, b error) string {
	e := a
	if e == nil {
		e = b
	}
	s := e.Error()
	// keep the shape of the message, drop everything that comes from the
	// document or the generated type
	if i := strings.Index(s, "cannot unmarshal "); i >= 0 {
		rest := s[i+len("cannot unmarshal "):]
		kind := "value"
		if j := strings.LastIndex(rest, " of type "); j >= 0 {
			kind = rest[j+len(" of type "):]
			if k := strings.IndexAny(kind, " {"); k > 0 {
				kind = kind[:k]
			}
		}
		return "cannot-unmarshal-into:" + kind
	}
	if strings.HasPrefix(s, "json: unknown field") {
		return "unknown-field"
	}
	if i := strings.Index(s, ":"); i > 0 && strings.HasPrefix(s, "json: invalid character") {
		s = s[:i]
	}
	s = numReProps.ReplaceAllString(s, "N")
	if i := strings.Index(s, "struct {"); i >= 0 {
		s = s[:i] + "struct{…}"
	}
	if len(s) > 60 {
		s = s[:60]
	}
	return s
}

// c02Probes counts which prior-state situations a step meets.
func c02Probes(r *core.Run, target reflect.Value, doc []byte) {
	var walk func(v reflect.Value, d int)
	walk = func(v reflect.Value, d int) {
		if d > 4 {
			return
		}
		switch v.Kind() {
		case reflect.Map:
			if v.Len() > 0 {
				r.Probe("map-merged-into-non-empty")
			}
		case reflect.Slice:
			if v.Cap() > 0 && v.Type().Elem().Kind() != reflect.Uint8 {
				r.Probe("slice-reused-with-capacity")
			}
		case reflect.Ptr:
			if !v.IsNil() {
				r.Probe("pointer-reused")
				walk(v.Elem(), d+1)
			}
		case reflect.Struct:
			for i := 0; i < v.NumField(); i++ {
				walk(v.Field(i), d+1)
			}
		}
	}
	walk(target, 0)
	_ = doc
}

// firstDiff finds the first path at which two values of one type differ and
// classifies how.
func firstDiff(a, b reflect.Value, path string, depth int) (string, string) {
	if depth > 20 {
		return path, "deep"
	}
	if a.IsValid() != b.IsValid() {
		return path, "validity"
	}
	if !a.IsValid() {
		return path, "same"
	}
	if a.Type() != b.Type() {
		return path, fmt.Sprintf("dynamic-type:%s-vs-%s", kindName(a), kindName(b))
	}
	switch a.Kind() {
	case reflect.Ptr:
		if a.IsNil() != b.IsNil() {
			if !a.IsNil() && a.Type().Elem().Kind() == reflect.Ptr && a.Elem().IsNil() {
				// a = segmentio, b = encoding/json: null decoded into a **T whose
				// outer pointer was set: the reference clears the outer pointer,
				// segmentio keeps it and clears the inner one
				return path, "ptr-to-ptr-null:outer-kept-inner-cleared"
			}
			return path, "pointer:" + nilness(a, b)
		}
		if a.IsNil() {
			return path, "same"
		}
		return firstDiff(a.Elem(), b.Elem(), "*"+path, depth+1)
	case reflect.Interface:
		if a.IsNil() != b.IsNil() {
			return path, "interface:" + nilness(a, b)
		}
		if a.IsNil() {
			return path, "same"
		}
		return firstDiff(a.Elem(), b.Elem(), path+".(any)", depth+1)
	case reflect.Struct:
		for i := 0; i < a.NumField(); i++ {
			if a.Type().Field(i).PkgPath != "" {
				// unexported: not reachable through Interface(); compare what fmt shows
				if fmt.Sprintf("%#v", a.Field(i)) != fmt.Sprintf("%#v", b.Field(i)) {
					return path + "." + a.Type().Field(i).Name, "unexported-field-differs"
				}
				continue
			}
			if !reflect.DeepEqual(a.Field(i).Interface(), b.Field(i).Interface()) {
				return firstDiff(a.Field(i), b.Field(i), path+"."+a.Type().Field(i).Name, depth+1)
			}
		}
	case reflect.Slice:
		if a.IsNil() != b.IsNil() {
			return path, "slice:" + nilness(a, b)
		}
		if a.Len() != b.Len() {
			return path, fmt.Sprintf("slice-len:%s", cmpName(a.Len(), b.Len()))
		}
		for i := 0; i < a.Len(); i++ {
			if !reflect.DeepEqual(a.Index(i).Interface(), b.Index(i).Interface()) {
				p, how := firstDiff(a.Index(i), b.Index(i), fmt.Sprintf("%s[%d]", path, i), depth+1)
				return p, "slice-elem/" + how
			}
		}
	case reflect.Array:
		for i := 0; i < a.Len(); i++ {
			if !reflect.DeepEqual(a.Index(i).Interface(), b.Index(i).Interface()) {
				p, how := firstDiff(a.Index(i), b.Index(i), fmt.Sprintf("%s[%d]", path, i), depth+1)
				return p, "array-elem/" + how
			}
		}
	case reflect.Map:
		if a.IsNil() != b.IsNil() {
			return path, "map:" + nilness(a, b)
		}
		if a.Len() != b.Len() {
			return path, fmt.Sprintf("map-len:%s", cmpName(a.Len(), b.Len()))
		}
		keys := a.MapKeys()
		sort.Slice(keys, func(i, j int) bool { return fmt.Sprint(keys[i]) < fmt.Sprint(keys[j]) })
		for _, k := range keys {
			bv := b.MapIndex(k)
			if !bv.IsValid() {
				return path, "map-key-missing"
			}
			if !reflect.DeepEqual(a.MapIndex(k).Interface(), bv.Interface()) {
				p, how := firstDiff(a.MapIndex(k), bv, fmt.Sprintf("%s[%v]", path, k), depth+1)
				return p, "map-value/" + how
			}
		}
	default:
		return path, "scalar:" + a.Kind().String()
	}
	return path, "same"
}

func nilness(a, b reflect.Value) string {
	if a.IsNil() {
		return "nil-vs-set"
	}
	return "set-vs-nil"
}

func cmpName(a, b int) string {
	if a < b {
		return "shorter"
	}
	return "longer"
}

func kindName(v reflect.Value) string { return v.Kind().String() }

var _ = io.EOF
