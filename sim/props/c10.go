package props

import (
	"bytes"
	stdjson "encoding/json"
	"fmt"
	"io"
	"reflect"
	"unsafe"

	"verifsim/core"
	"verifsim/gen"
	"verifsim/simio"
	"verifsim/tape"

	"github.com/segmentio/encoding/json"
	"github.com/segmentio/encoding/verifshim/simhook"
)

// C10 — json memory ownership: inputs untouched, results stable, aliasing
// opt-in.
//
// Histories of calls by 1..3 simulated goroutines with monitors on lent and
// returned memory: every input lives in a guarded buffer compared with its
// shadow after every library call; every result leaf (string, Number,
// RawMessage, []byte, map key; Marshal bytes) is copied at return and compared
// again after scribbling over inputs, after pooled buffers were poisoned on put
// and reused, and after the Decoder compacted and regrew its buffer; leaves are
// classified by address so that aliasing the input is accepted only for the
// kind whose DontCopy flag is set.

func init() {
	core.Register(&core.Property{
		ID: "C10", Level: "exploration", Engine: "sched", Sched: true,
		Quick: 60000, Thorough: 4000000,
		Run:  runC10,
		Rule: "one run = histories of json calls (Marshal, Encoder.Encode, Unmarshal, Parse with a ParseFlags subset, Decoder.Decode×k over a simulated reader, Tokenizer pass, scribble over an input, recheck) for 1..3 simulated goroutines plus pool policy and schedule, from the tape; non-trivial = at least one fault fired (an input was scribbled while results from it were live, a pooled buffer was reused after poison, the Decoder refilled its buffer between two results, or a context switch happened); distinct = distinct hash of (operations, documents, flags, schedule trace)",
		FaultKinds: []string{"scribble-input-with-live-results", "tokenizer-reset-and-reused", "destination-decoded-into-again", "pooled-buffer-poisoned-and-reused", "decoder-refill-between-results", "decoder-reader-chunked", "context-switch", "zero-copy-flags", "loose-capacity-input",
			"pool-policy:lifo", "pool-policy:fifo", "pool-policy:random", "pool-policy:never-reuse", "pool-policy:drop-on-put"},
		ProbeNames: []string{"ops", "inputs-checked-unchanged", "result-leaves-tracked", "leaves-aliasing-input(allowed)", "leaves-rechecked-after-scribble", "marshal-results-rechecked", "decoder-values", "decoder-zero-copy-values-checked-until-next-decode", "encoder-inputs-checked-unchanged", "tokenizer-strings", "writer-buffers-checked-stable-during-write", "decoder-leaves-in-read-buffer(allowed)", "tokenizer-strings-unescaped(own memory, tracked)", "utility-calls", "decoded-values-snapshotted", "raw-message-windows-checked", "zero-copy-results-of-a-finished-decoder-tracked"},
		Real:       []string{"json.Marshal/Encoder/Unmarshal/Parse/Decoder/Tokenizer compiled from /repo's working tree with sync redirected to the shim"},
		Model:      []string{"sync.Pool (simulated; poison on put, LIFO reuse by default)", "scheduler", "io.Reader (simio.Reader)", "caller buffers (simio.GuardedBuf: canaries + shadow copy)"},
		Assumptions: []string{
			"documents are valid JSON produced by encoding/json from generated values",
			"a leaf of length 0 is ignored by the address rule (its data pointer is meaningless)",
			"values decoded with a zero-copy flag that alias their input are expected to change when the input is scribbled and are excluded from the stability set; Decoder results obtained with zero-copy flags must stay stable only until the next Decode on that decoder",
		},
	})
}

// C10Doc is the static decode target rich in leaf kinds.
type C10Doc struct {
	S  string                     `json:"s"`
	N  json.Number                `json:"n"`
	R  json.RawMessage            `json:"r"`
	B  []byte                     `json:"b"`
	M  map[string]string          `json:"m"`
	A  any                        `json:"a"`
	L  []string                   `json:"l"`
	P  *string                    `json:"p"`
	MR map[string]json.RawMessage `json:"mr"`
	In struct {
		S2 string      `json:"s2"`
		N2 json.Number `json:"n2"`
	} `json:"in"`
	Esc   string `json:"esc"`
	UPPER string
	Q     int          `json:"q,string"`
	QU    uint16       `json:"qu,string"`
	QF    float64      `json:"qf,string"`
	QB    bool         `json:"qb,string"`
	QN    json.Number  `json:"qn,string"`
	PQN   *json.Number `json:"pqn,string"`
	QS    string       `json:"qs,string"`
	PQS   *string      `json:"pqs,string"`
}

const (
	c10Marshal = iota
	c10Encoder
	c10Unmarshal
	c10Parse
	c10Decoder
	c10Tokenizer
	c10Scribble
	c10Recheck
	c10Util
)

var c10OpNames = []string{"Marshal", "Encoder.Encode", "Unmarshal", "Parse", "Decoder.Decode", "Tokenizer", "scribble", "recheck", "utility (Append, MarshalIndent, Valid, Compact, Indent, HTMLEscape, Escape, Unescape)"}

type c10Op struct {
	kind    int
	ty      reflect.Type
	val     reflect.Value // encode ops: the value passed in
	valCopy reflect.Value // isomorphic pristine copy
	buf     *simio.GuardedBuf
	loose   bool
	flags   json.ParseFlags
	target  int // scribble: index of an earlier op of the same task
	reuse   int // decode ops: index of an earlier decode op (same type) whose destination is decoded into again; -1 = fresh
	dest    reflect.Value
	src     reflect.Value // the value the document was rendered from
	users   *[]*c10Op     // every decode that was given this destination so far
	byValue bool          // encode ops: pass the value itself instead of a pointer to it
	encOpts int           // Encoder ops: bit 0 SetEscapeHTML(false), bit 1 SetAppendNewline(false), bit 2 SetIndent
	// decoder
	stream  []byte
	script  []int
	tail    int
	ndecode int
	useNum  bool
	// Tokenizer: Reset and reuse the task's previous Tokenizer
	tokReset bool
	// encode ops: the guarded buffer a RawMessage argument is a window of
	rawGuard *simio.GuardedBuf
	// utility ops
	sub    int
	prefix []byte
	aflags json.AppendFlags
}

const (
	leafString = iota
	leafNumber
	leafRaw
	leafBytes
	leafKey
	leafMarshal
	leafTokString
)

var leafNames = []string{"string", "Number", "RawMessage", "[]byte", "map key", "Marshal result", "Tokenizer.String result"}

type leaf struct {
	view    []byte
	snap    []byte
	kind    int
	inInput bool
	op      int
	path    string
}

type c10Snap struct {
	op       int
	x, clone reflect.Value
}

// deepClone copies a decoded value: pointers, interfaces, slices, maps, arrays and
// the exported fields of structs are duplicated; unexported fields are carried
// over by assignment.
func deepClone(v reflect.Value, depth int) reflect.Value {
	if !v.IsValid() || depth > 32 {
		return v
	}
	switch v.Kind() {
	case reflect.Ptr:
		if v.IsNil() {
			return v
		}
		p := reflect.New(v.Type().Elem())
		p.Elem().Set(deepClone(v.Elem(), depth+1))
		return p
	case reflect.Interface:
		if v.IsNil() {
			return v
		}
		c := reflect.New(v.Type()).Elem()
		c.Set(deepClone(v.Elem(), depth+1))
		return c
	case reflect.Slice:
		if v.IsNil() {
			return v
		}
		c := reflect.MakeSlice(v.Type(), v.Len(), v.Len())
		for i := 0; i < v.Len(); i++ {
			c.Index(i).Set(deepClone(v.Index(i), depth+1))
		}
		return c
	case reflect.Array:
		c := reflect.New(v.Type()).Elem()
		for i := 0; i < v.Len(); i++ {
			c.Index(i).Set(deepClone(v.Index(i), depth+1))
		}
		return c
	case reflect.Map:
		if v.IsNil() {
			return v
		}
		c := reflect.MakeMapWithSize(v.Type(), v.Len())
		it := v.MapRange()
		for it.Next() {
			c.SetMapIndex(deepClone(it.Key(), depth+1), deepClone(it.Value(), depth+1))
		}
		return c
	case reflect.Struct:
		c := reflect.New(v.Type()).Elem()
		c.Set(v)
		for i := 0; i < v.NumField(); i++ {
			if v.Type().Field(i).PkgPath == "" {
				c.Field(i).Set(deepClone(v.Field(i), depth+1))
			}
		}
		return c
	case reflect.String:
		// a private copy of the bytes: a string that aliases memory the library
		// rewrites later must show as a difference
		c := reflect.New(v.Type()).Elem()
		c.SetString(string(append([]byte(nil), v.String()...)))
		return c
	}
	return v
}

type c10TaskRes struct {
	fail, failKey string
	snaps         []c10Snap
	leaves        []leaf
	probes        map[string]int64
	faults        map[string]int64
}

var (
	tNumber = reflect.TypeOf(json.Number(""))
	tRawMsg = reflect.TypeOf(json.RawMessage(nil))
)

// t0cap varies the spare capacity of Append's destination deterministically.
func t0cap(a, b int) int { return []int{0, 1, 7, 64, 4096}[(a+b)%5] }

func strBytes(s string) []byte {
	if len(s) == 0 {
		return nil
	}
	return unsafe.Slice(unsafe.StringData(s), len(s))
}

// collectLeaves walks a decoded value and records every string, Number,
// RawMessage, []byte and map key of non-zero length.
func collectLeaves(v reflect.Value, path string, out *[]leaf, depth int) {
	if depth > 12 || !v.IsValid() {
		return
	}
	switch v.Kind() {
	case reflect.String:
		k := leafString
		if v.Type() == tNumber {
			k = leafNumber
		}
		if b := strBytes(v.String()); len(b) > 0 {
			*out = append(*out, leaf{view: b, kind: k, path: path})
		}
	case reflect.Slice:
		if v.Type().Elem().Kind() == reflect.Uint8 {
			k := leafBytes
			if v.Type() == tRawMsg {
				k = leafRaw
			}
			if v.Len() > 0 {
				*out = append(*out, leaf{view: v.Bytes(), kind: k, path: path})
			}
			return
		}
		for i := 0; i < v.Len(); i++ {
			collectLeaves(v.Index(i), fmt.Sprintf("%s[%d]", path, i), out, depth+1)
		}
	case reflect.Array:
		for i := 0; i < v.Len(); i++ {
			collectLeaves(v.Index(i), fmt.Sprintf("%s[%d]", path, i), out, depth+1)
		}
	case reflect.Map:
		it := v.MapRange()
		for it.Next() {
			if it.Key().Kind() == reflect.String {
				if b := strBytes(it.Key().String()); len(b) > 0 {
					*out = append(*out, leaf{view: b, kind: leafKey, path: path + "{key}"})
				}
			}
			collectLeaves(it.Value(), path+"{}", out, depth+1)
		}
	case reflect.Ptr, reflect.Interface:
		if !v.IsNil() {
			collectLeaves(v.Elem(), path, out, depth+1)
		}
	case reflect.Struct:
		for i := 0; i < v.NumField(); i++ {
			if v.Type().Field(i).PkgPath == "" {
				collectLeaves(v.Field(i), path+"."+v.Type().Field(i).Name, out, depth+1)
			}
		}
	}
}

// C10OwnBytes implements json.Marshaler by returning its own storage (legal: the
// library must treat what MarshalJSON returns as lent memory).
type C10OwnBytes struct{ Doc []byte }

func (c C10OwnBytes) MarshalJSON() ([]byte, error) { return c.Doc, nil }

var c10LeafTypes = []reflect.Type{reflect.TypeOf(json.RawMessage(nil)), reflect.TypeOf(""), reflect.TypeOf(json.Number("")), reflect.TypeOf([]byte(nil)),
	reflect.TypeOf((*any)(nil)).Elem(), reflect.TypeOf(map[string]string(nil)), reflect.TypeOf([]string(nil)), reflect.TypeOf([]json.RawMessage(nil)), reflect.TypeOf(map[string]json.RawMessage(nil)), reflect.TypeOf(map[string][]string(nil))}

func c10Types(t *tape.Tape) reflect.Type {
	if t.Chance(1, 5) {
		// top-level destinations that are themselves leaves (or thin wrappers)
		return c10LeafTypes[t.Intn(len(c10LeafTypes))]
	}
	switch t.Pick(5, 3, 1, 1) {
	case 0:
		return reflect.TypeOf(C10Doc{})
	case 1:
		return gen.Shape(gen.JSON, t.Intn(gen.ShapeSpace), false, false)
	case 2:
		return reflect.TypeOf(map[string]any{})
	default:
		return reflect.TypeOf(ZMisc{})
	}
}

// c10Value builds a value and an isomorphic copy from the same stretch of tape.
func c10Value(t *tape.Tape, rt reflect.Type) (v, cp reflect.Value) {
	maxLen := 4
	if t.Chance(1, 5) {
		maxLen = 40 // results larger than the pooled buffer's initial capacity
	}
	start := t.Len()
	vg := &gen.Values{T: t, C: gen.JSON, MaxMap: 3, MaxLen: maxLen}
	v = vg.New(rt)
	seg := append([]uint32(nil), t.Record()[start:t.Len()]...)
	cg := &gen.Values{T: tape.Replay(seg), C: gen.JSON, MaxMap: 3, MaxLen: maxLen}
	cp = cg.New(rt)
	return
}

func c10Doc(t *tape.Tape, rt reflect.Type, perturb bool) []byte {
	b, _ := c10DocFrom(t, rt, perturb, reflect.Value{})
	return b
}

// c10DocFrom builds a document for rt; when `from` is valid the document is
// another rendering of that same value (same map keys, same strings), which is
// what a destination decoded into again typically receives.
func c10DocFrom(t *tape.Tape, rt reflect.Type, perturb bool, from reflect.Value) ([]byte, reflect.Value) {
	vg := &gen.Values{T: t, C: gen.JSON, MaxMap: 3, MaxLen: 4}
	v := from
	if !v.IsValid() {
		v = vg.New(rt)
		if m, ok := v.Interface().(*map[string][]string); ok && t.Bool() {
			// lists whose lengths sit on the growth steps of a scratch slice
			*m = map[string][]string{}
			for i, n := 0, t.Range(1, 3); i < n; i++ {
				l := make([]string, []int{9, 10, 11, 20, 40}[t.Intn(5)])
				for j := range l {
					l[j] = fmt.Sprintf("s%d-%d", i, j)
				}
				(*m)[fmt.Sprintf("k%d", i)] = l
			}
		}
	}
	if d, ok := v.Interface().(*C10Doc); ok {
		if t.Bool() {
			d.Esc = "tab\there \"quoted\" \\ backé"
		}
	}
	b, err := stdjson.Marshal(v.Interface())
	if err != nil {
		// time.Time zero etc. always encode; RawMessage/Number are generated valid
		core.Harness("C10: encoding/json cannot encode a generated value: %v", err)
	}
	if t.Chance(1, 3) {
		var ib bytes.Buffer
		stdjson.Indent(&ib, b, "", " ")
		b = ib.Bytes()
	}
	// "all documents": the input must stay untouched for near-valid input too
	// (results are only tracked when the decode succeeds)
	if t.Chance(1, 8) && len(b) > 2 && b[0] == '{' {
		// repeat the first member at the end: a duplicate key within one document
		if j := bytes.IndexByte(b, ','); j > 0 {
			b = append(append(append([]byte(nil), b[:len(b)-1]...), ','), append(append([]byte(nil), b[1:j]...), '}')...)
		}
	}
	if perturb && t.Chance(1, 3) {
		b = c10Perturb(t, b)
	}
	return b, v
}

// c10Perturb applies 1..3 character-level edits: leading zeroes inside quoted
// and bare numbers, a deleted / duplicated / replaced byte, an upper-cased key.
func c10Perturb(t *tape.Tape, doc []byte) []byte {
	b := append([]byte(nil), doc...)
	n := t.Range(1, 3)
	for k := 0; k < n && len(b) > 0; k++ {
		switch t.Pick(4, 2, 1, 1, 1, 1, 2) {
		case 6: // a member with a long key in mixed case (no field has that name) in front of an object's members
			if i := bytes.IndexByte(b, '{'); i >= 0 {
				n := []int{31, 32, 33, 63, 64, 65, 66, 100, 129, 300}[t.Intn(10)]
				key := make([]byte, n)
				for j := range key {
					key[j] = "aBcDeFgHiJkLmNoPqRsTuVwXyZ_0"[(j*7+n)%28]
				}
				ins := append(append([]byte{'"'}, key...), `":0`...)
				if j := i + 1; j < len(b) && b[j] != '}' {
					ins = append(ins, ',')
				}
				b = append(b[:i+1:i+1], append(ins, b[i+1:]...)...)
			}
		case 0, 1: // leading zeroes in a number (quoted or bare)
			start := t.Intn(len(b))
			for i := 0; i < len(b); i++ {
				j := (start + i) % len(b)
				if b[j] >= '0' && b[j] <= '9' && (j == 0 || b[j-1] == '"' || b[j-1] == '-' || b[j-1] == ':' || b[j-1] == ',' || b[j-1] == '[') {
					z := []byte("0")
					if t.Bool() {
						z = []byte("00")
					}
					b = append(b[:j:j], append(z, b[j:]...)...)
					break
				}
			}
		case 2:
			j := t.Intn(len(b))
			b = append(b[:j:j], b[j+1:]...)
		case 3:
			j := t.Intn(len(b))
			b = append(b[:j:j], append([]byte{b[j]}, b[j:]...)...)
		case 4:
			const alphabet = "\"\\{}[],:0-9eE. tfn\x00\xff"
			b[t.Intn(len(b))] = alphabet[t.Intn(len(alphabet))]
		default:
			j := t.Intn(len(b))
			if b[j] >= 'a' && b[j] <= 'z' {
				b[j] -= 32
			}
		}
	}
	return b
}

func c10Flags(t *tape.Tape) json.ParseFlags {
	var f json.ParseFlags
	if t.Chance(1, 2) {
		for _, x := range []json.ParseFlags{json.DontCopyString, json.DontCopyNumber, json.DontCopyRawMessage} {
			if t.Bool() {
				f |= x
			}
		}
	}
	if t.Chance(1, 3) {
		f |= json.UseNumber
	}
	if t.Chance(1, 4) {
		// integer representations for numbers decoded into interfaces (Parse only)
		f |= []json.ParseFlags{json.UseInt64, json.UseUint64, json.UseBigInt, json.UseInt64 | json.UseBigInt}[t.Intn(4)]
	}
	if t.Chance(1, 8) {
		f |= json.DontMatchCaseInsensitiveStructFields
	}
	return f
}

func c10GenTask(r *core.Run, t *tape.Tape) []*c10Op {
	n := t.Range(3, 10)
	if r.Tier == "thorough" && t.Chance(1, 3) {
		n = t.Range(10, 24) // longer histories in the thorough tier
	}
	var ops []*c10Op
	for j := 0; j < n; j++ {
		op := &c10Op{}
		op.kind = t.Pick(3, 2, 3, 5, 3, 1, 2, 1, 2)
		switch op.kind {
		case c10Marshal, c10Encoder:
			op.ty = c10Types(t)
			op.val, op.valCopy = c10Value(t, op.ty)
			if t.Chance(1, 5) {
				// a large, already compact and HTML-safe raw document handed to the
				// encoder as json.RawMessage or through a MarshalJSON method
				n := []int{3000, 4090, 4096, 4100, 5000, 9000}[t.Intn(6)]
				mk := func() []byte {
					b := []byte(`{"k":"`)
					for len(b) < n-2 {
						b = append(b, byte('a'+len(b)%26))
					}
					return append(b, '"', '}')
				}
				if t.Bool() {
					op.ty = reflect.TypeOf(json.RawMessage(nil))
					a, c := json.RawMessage(mk()), json.RawMessage(mk())
					op.val, op.valCopy = reflect.ValueOf(&a), reflect.ValueOf(&c)
				} else {
					op.ty = reflect.TypeOf(C10OwnBytes{})
					op.val, op.valCopy = reflect.ValueOf(&C10OwnBytes{Doc: mk()}), reflect.ValueOf(&C10OwnBytes{Doc: mk()})
				}
				op.byValue = t.Bool()
			} else if t.Chance(1, 6) {
				// a RawMessage that is a window into a larger buffer of the caller's
				// (several messages back to back): the bytes behind it are guarded
				doc := c10Doc(t, reflect.TypeOf(map[string]string{}), false)
				var cb bytes.Buffer
				if stdjson.Compact(&cb, doc) == nil {
					doc = cb.Bytes()
				}
				g := simio.NewGuarded(len(doc), 0, 0xEE)
				copy(g.Body(), doc)
				g.Snapshot()
				rm, rmCopy := json.RawMessage(g.BodyLoose()), json.RawMessage(append([]byte(nil), doc...))
				op.ty = reflect.TypeOf(rm)
				op.val, op.valCopy = reflect.ValueOf(&rm), reflect.ValueOf(&rmCopy)
				op.byValue = t.Bool()
				op.rawGuard = g
			}
			op.encOpts = t.Intn(8)
		case c10Unmarshal, c10Parse, c10Tokenizer:
			op.ty = c10Types(t)
			op.reuse = -1
			if op.kind != c10Tokenizer && t.Chance(1, 3) {
				// decode into the destination of an earlier decode again: the
				// values handed out by the earlier call must survive that too
				var cands []int
				for k, p := range ops {
					if (p.kind == c10Unmarshal || p.kind == c10Parse) && p.ty != nil {
						cands = append(cands, k)
					}
				}
				if len(cands) > 0 {
					op.reuse = cands[t.Intn(len(cands))]
					op.ty = ops[op.reuse].ty
				}
			}
			var from reflect.Value
			if op.reuse >= 0 && ops[op.reuse].src.IsValid() && t.Bool() {
				from = ops[op.reuse].src
			}
			doc, src := c10DocFrom(t, op.ty, true, from)
			op.src = src
			if t.Chance(1, 4) {
				doc = append(doc, "  \n"...)
			}
			op.buf = simio.NewGuarded(len(doc), 0, 0xEE)
			copy(op.buf.Body(), doc)
			op.buf.Snapshot()
			op.loose = t.Chance(1, 3)
			if op.kind == c10Parse {
				op.flags = c10Flags(t)
			}
			if op.kind == c10Tokenizer {
				op.tokReset = t.Bool()
			}
		case c10Decoder:
			op.ty = c10Types(t)
			op.ndecode = t.Range(1, 6)
			big := t.Chance(1, 6)
			if big {
				op.ndecode = t.Range(20, 200)
			}
			for i := 0; i < op.ndecode; i++ {
				op.stream = append(op.stream, c10Doc(t, op.ty, i == op.ndecode-1)...)
				op.stream = append(op.stream, '\n')
				if len(op.stream) > 200<<10 {
					op.ndecode = i + 1
					break
				}
			}
			op.flags = c10Flags(t)
			rd := &simio.Reader{}
			c11Script(r, rd, t.Pick(3, 2, 3, 3, 2, 2), len(op.stream))
			for _, e := range rd.Script {
				op.script = append(op.script, e.N)
			}
			op.tail = rd.Tail
		case c10Util:
			op.sub = t.Intn(8)
			op.ty = c10Types(t)
			op.val, op.valCopy = c10Value(t, op.ty)
			op.byValue = t.Bool()
			op.prefix = []byte("prefix-0123456789")[:t.Intn(18)]
			op.aflags = json.AppendFlags(t.Intn(8))
			var doc []byte
			if op.sub >= 6 {
				// a string literal with escapes
				g := &gen.JSONDoc{T: t}
				doc = g.Key(nil)
			} else {
				doc = c10Doc(t, op.ty, false)
			}
			op.buf = simio.NewGuarded(len(doc), 0, 0xEE)
			copy(op.buf.Body(), doc)
			op.buf.Snapshot()
			op.flags = c10Flags(t) & json.ZeroCopy
		case c10Scribble:
			op.target = -1
			var cands []int
			for k, p := range ops {
				if p.buf != nil {
					cands = append(cands, k)
				}
			}
			if len(cands) > 0 {
				op.target = cands[t.Intn(len(cands))]
			}
		}
		ops = append(ops, op)
	}
	return ops
}

// simWriter is the simulated io.Writer: while it holds the slice it was lent it
// lets other simulated goroutines run and itself calls back into the library
// (user code inside Write may do both), then checks that the slice still holds
// what it held when Write was entered.
type simWriter struct {
	out    []byte
	writes int
	bad    string
}

func (w *simWriter) Write(p []byte) (int, error) {
	w.writes++
	snap := append([]byte(nil), p...)
	simhook.Yield(simhook.KOp, -1)
	if w.writes%2 == 1 {
		json.Marshal(map[string]int{"reentrant-call-from-inside-Write": len(p)})
	}
	simhook.Yield(simhook.KOp, -1)
	if !bytes.Equal(p, snap) && w.bad == "" {
		w.bad = fmt.Sprintf("the %d bytes handed to Write changed while the writer was still using them: %q -> %q", len(p), clip(snap, 60), clip(p, 60))
	}
	w.out = append(w.out, snap...)
	return len(p), nil
}

func (op *c10Op) arg() any {
	if op.byValue {
		return op.val.Elem().Interface()
	}
	return op.val.Interface()
}

// encoderInputsIntact re-compares every value that was handed to Marshal /
// Encode so far with its pristine twin: memory lent to an encoder must still
// be untouched after any number of later calls.
func (tr *c10TaskRes) encoderInputsIntact(ops []*c10Op, upto int, when string) {
	for k := 0; k <= upto && k < len(ops); k++ {
		op := ops[k]
		if (op.kind == c10Marshal || op.kind == c10Encoder) && op.val.IsValid() {
			tr.probes["encoder-inputs-checked-unchanged"]++
			if !reflect.DeepEqual(op.val.Interface(), op.valCopy.Interface()) {
				tr.failf("encoder-input-modified", "%s: the value given to %s (op #%d, %s) is no longer what the caller put there: the library wrote to memory it was lent", when, c10OpNames[op.kind], k, clipStr(op.ty.String(), 60))
				return
			}
			if op.rawGuard != nil {
				tr.probes["raw-message-windows-checked"]++
				if off, ok := op.rawGuard.Unchanged(); !ok {
					tr.failf("encoder-input-buffer-modified", "%s: the buffer of which the RawMessage given to %s (op #%d) is a window changed at offset %d relative to the window (window length %d): the library wrote to memory it was lent, behind or in front of the slice", when, c10OpNames[op.kind], k, off, op.rawGuard.Hi-op.rawGuard.Lo)
					return
				}
			}
		}
	}
}

func (tr *c10TaskRes) failf(key, format string, a ...any) {
	if tr.fail == "" {
		tr.failKey = key
		tr.fail = fmt.Sprintf(format, a...)
	}
}

// checkInput compares a lent buffer (body, spare capacity, canaries) with its shadow.
func (tr *c10TaskRes) checkInput(op *c10Op, when string) {
	tr.probes["inputs-checked-unchanged"]++
	if off, ok := op.buf.Unchanged(); !ok {
		tr.failf("input-modified:"+c10OpNames[op.kind], "%s: the library wrote to memory it was lent: byte at offset %d of the input buffer (body length %d; negative / beyond = guard area) changed from %#x to %#x", when, off, op.buf.Hi-op.buf.Lo, op.buf.Shadow[off+op.buf.Lo], op.buf.All[off+op.buf.Lo])
	}
}

func (tr *c10TaskRes) track(opIdx int, op *c10Op, v reflect.Value, what string, untilNext bool) []leaf {
	var ls []leaf
	collectLeaves(v, what, &ls, 0)
	// the inputs this destination was decoded from: this call's, and — when the
	// destination is decoded into again — those of the earlier calls, whose
	// zero-copy leftovers (merged map entries, untouched fields) legitimately
	// still alias *their* input
	chain := []*c10Op{}
	if op.buf != nil {
		chain = append(chain, op)
	}
	if op.users != nil {
		chain = append(chain, *op.users...)
	}
	for i := range ls {
		l := &ls[i]
		l.op = opIdx
		l.snap = append([]byte(nil), l.view...)
		p := uintptr(unsafe.Pointer(&l.view[0]))
		for _, o := range chain {
			base := uintptr(unsafe.Pointer(&o.buf.All[0]))
			end := base + uintptr(len(o.buf.All))
			if p < base || p >= end {
				continue
			}
			l.inInput = true
			allowed := false
			switch l.kind {
			case leafString, leafKey:
				allowed = o.flags&json.DontCopyString != 0
			case leafNumber:
				allowed = o.flags&json.DontCopyNumber != 0
			case leafRaw:
				allowed = o.flags&json.DontCopyRawMessage != 0
			}
			if !allowed {
				tr.failf("alias-without-flag:"+leafNames[l.kind], "%s (flags %#x): decoded %s at %s shares memory with an input buffer although the zero-copy flag for it was not set on the call that was given that buffer: %q", c10OpNames[op.kind], uint32(op.flags), leafNames[l.kind], l.path, clip(l.view, 60))
			}
			tr.probes["leaves-aliasing-input(allowed)"]++
			break
		}
	}
	tr.probes["result-leaves-tracked"] += int64(len(ls))
	if !untilNext {
		tr.leaves = append(tr.leaves, ls...)
	}
	return ls
}

func checkLeaves(ls []leaf, when string) (string, string) {
	for i := range ls {
		l := &ls[i]
		if l.inInput {
			continue
		}
		if !bytes.Equal(l.view, l.snap) {
			return "result-changed:" + leafNames[l.kind], fmt.Sprintf("%s: %s at %s (result of op #%d) changed after it was returned: was %q, now %q", when, leafNames[l.kind], l.path, l.op, clip(l.snap, 80), clip(l.view, 80))
		}
	}
	return "", ""
}

func c10Exec(task int, ops []*c10Op, tr *c10TaskRes) {
	tr.probes = map[string]int64{}
	tr.faults = map[string]int64{}
	var tok *json.Tokenizer
	for j, op := range ops {
		tr.probes["ops"]++
		switch op.kind {
		case c10Marshal:
			b, err := json.Marshal(op.arg())
			if err == nil && len(b) > 0 {
				tr.leaves = append(tr.leaves, leaf{view: b, snap: append([]byte(nil), b...), kind: leafMarshal, op: j, path: "Marshal()"})
			}
			if !reflect.DeepEqual(op.val.Interface(), op.valCopy.Interface()) {
				tr.failf("encoder-input-modified", "Marshal modified the value it was given")
			}
			tr.probes["encoder-inputs-checked-unchanged"]++
		case c10Encoder:
			w := &simWriter{}
			enc := json.NewEncoder(w)
			if op.encOpts&1 != 0 {
				enc.SetEscapeHTML(false)
			}
			if op.encOpts&2 != 0 {
				enc.SetAppendNewline(false)
			}
			if op.encOpts&4 != 0 {
				enc.SetIndent(">", " ")
			}
			for k := 0; k < 2; k++ {
				enc.Encode(op.arg())
			}
			tr.probes["writer-buffers-checked-stable-during-write"] += int64(w.writes)
			if w.bad != "" {
				tr.failf("writer-buffer-changed-during-write", "Encoder.Encode: %s", w.bad)
			}
			if !reflect.DeepEqual(op.val.Interface(), op.valCopy.Interface()) {
				tr.failf("encoder-input-modified", "Encoder.Encode modified the value it was given")
			}
			tr.probes["encoder-inputs-checked-unchanged"]++
		case c10Unmarshal, c10Parse:
			in := op.buf.Body()
			if op.loose {
				in = op.buf.BodyLoose()
				tr.faults["loose-capacity-input"]++
			}
			x := reflect.New(op.ty)
			if op.reuse >= 0 && ops[op.reuse].dest.IsValid() {
				x = ops[op.reuse].dest
				op.users = ops[op.reuse].users
				tr.faults["destination-decoded-into-again"]++
				// Passing the destination again hands the mutable storage reachable
				// from it ([]byte, RawMessage) back to the library, which may reuse it
				// like encoding/json does; strings, Numbers and map keys are immutable
				// Go values and must survive regardless.
				handedBack := map[int]bool{}
				for _, u := range *op.users {
					for k := range ops {
						if ops[k] == u {
							handedBack[k] = true
						}
					}
				}
				kept := tr.leaves[:0]
				for _, l := range tr.leaves {
					if handedBack[l.op] && (l.kind == leafBytes || l.kind == leafRaw) {
						continue
					}
					kept = append(kept, l)
				}
				tr.leaves = kept
			}
			op.dest = x
			if op.users == nil {
				op.users = &[]*c10Op{}
			}
			*op.users = append(*op.users, op)
			var err error
			if op.kind == c10Unmarshal {
				err = json.Unmarshal(in, x.Interface())
			} else {
				_, err = json.Parse(in, x.Interface(), op.flags)
				if op.flags&json.ZeroCopy != 0 {
					tr.faults["zero-copy-flags"]++
				}
			}
			tr.checkInput(op, c10OpNames[op.kind])
			if err == nil {
				tr.track(j, op, x, c10OpNames[op.kind]+"(x)", false)
			}
			// the decoded value as a whole keeps its contents too (slices and maps
			// the library built included), as long as no call that was given this
			// destination had a zero-copy flag
			copyMode := err == nil
			for _, u := range *op.users {
				if u.flags&json.ZeroCopy != 0 {
					copyMode = false
				}
			}
			kept := tr.snaps[:0]
			for _, sn := range tr.snaps {
				if sn.x.Pointer() != x.Pointer() {
					kept = append(kept, sn)
				}
			}
			tr.snaps = kept
			if copyMode {
				tr.snaps = append(tr.snaps, c10Snap{op: j, x: x, clone: deepClone(x, 0)})
				tr.probes["decoded-values-snapshotted"]++
			}
		case c10Tokenizer:
			in := op.buf.Body()
			// one Tokenizer per task is reused through Reset for some passes: what
			// an earlier pass handed out must survive the later ones
			if tok == nil || !op.tokReset {
				tok = json.NewTokenizer(in)
			} else {
				tok.Reset(in)
				tr.faults["tokenizer-reset-and-reused"]++
			}
			base := uintptr(unsafe.Pointer(&op.buf.All[0]))
			for tok.Next() {
				if tok.Kind().Class() == json.String {
					s := tok.String()
					tr.probes["tokenizer-strings"]++
					if len(s) == 0 {
						continue
					}
					// String returns a view of the input or memory of its own
					l := leaf{view: s, snap: append([]byte(nil), s...), kind: leafTokString, op: j, path: "Tokenizer.String()"}
					if p := uintptr(unsafe.Pointer(&s[0])); p >= base && p < base+uintptr(len(op.buf.All)) {
						l.inInput = true
					} else {
						tr.probes["tokenizer-strings-unescaped(own memory, tracked)"]++
					}
					tr.leaves = append(tr.leaves, l)
				}
			}
			tr.checkInput(op, "Tokenizer")
		case c10Decoder:
			rd := &simio.Reader{Data: op.stream, Cut: len(op.stream), Final: io.EOF, Tail: op.tail}
			for _, n := range op.script {
				rd.Script = append(rd.Script, simio.Event{N: n})
			}
			if rd.Tail < 1 {
				rd.Tail = 1
			}
			dec := json.NewDecoder(rd)
			zero := op.flags&json.ZeroCopy != 0
			if op.flags&json.DontCopyString != 0 {
				dec.DontCopyString()
			}
			if op.flags&json.DontCopyNumber != 0 {
				dec.DontCopyNumber()
			}
			if op.flags&json.DontCopyRawMessage != 0 {
				dec.DontCopyRawMessage()
			}
			if op.flags&json.UseNumber != 0 {
				dec.UseNumber()
			}
			if zero {
				tr.faults["zero-copy-flags"]++
			}
			if len(op.script) > 0 || op.tail < len(op.stream) {
				tr.faults["decoder-reader-chunked"]++
			}
			var prev, allZero []leaf
			lastBatches := 0
			for k := 0; k < op.ndecode+1; k++ {
				// zero-copy results must be stable until the next Decode on this decoder
				if prev != nil {
					if key, msg := checkLeaves(prev, "before the next Decode"); key != "" {
						tr.failf("decoder-"+key, "%s", msg)
					}
					tr.probes["decoder-zero-copy-values-checked-until-next-decode"]++
				}
				x := reflect.New(op.ty)
				err := dec.Decode(x.Interface())
				if err != nil {
					break
				}
				tr.probes["decoder-values"]++
				ls := tr.track(j, &c10Op{kind: c10Decoder, flags: op.flags}, x, fmt.Sprintf("Decode#%d", k), zero)
				if zero && len(allZero) < 96 {
					allZero = append(allZero, ls...)
				}
				// a result that points into a buffer the Decoder handed to Read shares
				// memory with the Decoder's read buffer, which later Decode calls refill
				for i := range ls {
					l := &ls[i]
					if !rd.LentContains(uintptr(unsafe.Pointer(&l.view[0]))) {
						continue
					}
					allowed := false
					switch l.kind {
					case leafString, leafKey:
						allowed = op.flags&json.DontCopyString != 0
					case leafNumber:
						allowed = op.flags&json.DontCopyNumber != 0
					case leafRaw:
						allowed = op.flags&json.DontCopyRawMessage != 0
					}
					if !allowed {
						tr.failf("alias-decoder-buffer-without-flag:"+leafNames[l.kind], "Decoder (flags %#x): decoded %s at %s shares memory with the Decoder's read buffer although the zero-copy flag for it is not set: %q", uint32(op.flags), leafNames[l.kind], l.path, clip(l.view, 60))
					}
					tr.probes["decoder-leaves-in-read-buffer(allowed)"]++
				}
				if zero {
					prev = ls
				}
				if len(rd.Batches) > lastBatches && k > 0 {
					tr.faults["decoder-refill-between-results"]++
				}
				lastBatches = len(rd.Batches)
				simhook.Yield(simhook.KOp, -1)
			}
			// this Decoder is not used again.  What it handed out under zero-copy
			// flags shares memory with this Decoder's buffer "and with nothing else":
			// its own later Decodes were entitled to rewrite it, nobody else is.  From
			// here on the bytes those results hold now must stay as they are.
			if len(allZero) > 0 {
				for i := range allZero {
					allZero[i].snap = append(allZero[i].snap[:0], allZero[i].view...)
				}
				tr.leaves = append(tr.leaves, allZero...)
				tr.probes["zero-copy-results-of-a-finished-decoder-tracked"]++
			}
			_ = prev
		case c10Util:
			in := op.buf.Body()
			own := func(b []byte, what string) {
				if len(b) == 0 {
					return
				}
				l := leaf{view: b, snap: append([]byte(nil), b...), kind: leafMarshal, op: j, path: what}
				base := uintptr(unsafe.Pointer(&op.buf.All[0]))
				if p := uintptr(unsafe.Pointer(&b[0])); p >= base && p < base+uintptr(len(op.buf.All)) {
					tr.failf("utility-result-aliases-input", "%s returned memory inside the input it was given", what)
				}
				tr.leaves = append(tr.leaves, l)
			}
			switch op.sub {
			case 0:
				pre := append(make([]byte, 0, len(op.prefix)+t0cap(op.sub, j)), op.prefix...)
				b, err := json.Append(pre, op.arg(), op.aflags)
				if err == nil {
					if !bytes.HasPrefix(b, op.prefix) {
						tr.failf("append-prefix-changed", "json.Append changed the bytes already in the buffer it appends to")
					}
					own(b, "Append()")
				}
			case 1:
				b, err := json.MarshalIndent(op.arg(), "", " ")
				if err == nil {
					own(b, "MarshalIndent()")
				}
			case 2:
				json.Valid(in)
			case 3:
				var bb bytes.Buffer
				if json.Compact(&bb, in) == nil {
					own(bb.Bytes(), "Compact()")
				}
			case 4:
				var bb bytes.Buffer
				if json.Indent(&bb, in, "", "\t") == nil {
					own(bb.Bytes(), "Indent()")
				}
			case 5:
				var bb bytes.Buffer
				json.HTMLEscape(&bb, in)
				own(bb.Bytes(), "HTMLEscape()")
			case 6:
				own(json.Unescape(in), "Unescape()")
				own(json.AppendUnescape(append([]byte(nil), op.prefix...), in, op.flags), "AppendUnescape()")
			case 7:
				own(json.Escape(string(in)), "Escape()")
				own(json.AppendEscape(append([]byte(nil), op.prefix...), string(in), op.aflags), "AppendEscape()")
			}
			if op.sub <= 1 && !reflect.DeepEqual(op.val.Interface(), op.valCopy.Interface()) {
				tr.failf("encoder-input-modified", "%s modified the value it was given", []string{"Append", "MarshalIndent"}[op.sub])
			}
			tr.probes["utility-calls"]++
			tr.checkInput(op, "utility call")
		case c10Scribble:
			if op.target >= 0 {
				tg := ops[op.target]
				live := false
				for i := range tr.leaves {
					if tr.leaves[i].op == op.target {
						live = true
						break
					}
				}
				body := tg.buf.Body()
				for i := range body {
					body[i] = 'Z' - byte(i%7)
				}
				tg.buf.Snapshot()
				if live {
					tr.faults["scribble-input-with-live-results"]++
					n := 0
					for i := range tr.leaves {
						if tr.leaves[i].op == op.target && !tr.leaves[i].inInput {
							n++
						}
					}
					tr.probes["leaves-rechecked-after-scribble"] += int64(n)
				}
				if key, msg := checkLeaves(tr.leaves, "after the caller overwrote an input buffer"); key != "" {
					tr.failf(key+":after-scribble", "%s", msg)
				}
			}
		case c10Recheck:
			if key, msg := checkLeaves(tr.leaves, "recheck after further library calls"); key != "" {
				tr.failf(key, "%s", msg)
			}
		}
		if tr.fail == "" {
			tr.encoderInputsIntact(ops, j, "after "+c10OpNames[op.kind])
		}
		if tr.fail == "" {
			for _, sn := range tr.snaps {
				if !reflect.DeepEqual(sn.x.Interface(), sn.clone.Interface()) {
					tr.failf("result-changed:decoded-value", "after %s: the value decoded by op #%d (no zero-copy flag on any call that was given this destination) is no longer what it was when the call returned: now %s, then %s", c10OpNames[op.kind], sn.op, clipStr(fmt.Sprintf("%+v", sn.x.Elem().Interface()), 300), clipStr(fmt.Sprintf("%+v", sn.clone.Elem().Interface()), 300))
					break
				}
			}
		}
		if tr.fail != "" {
			return
		}
		simhook.Yield(simhook.KOp, -1)
	}
}

func runC10(r *core.Run) {
	t := r.T
	simhook.Choose = t.Intn
	simhook.ResetAll()
	simhook.SetConfig(simhook.Config{})
	simhook.TakeProbes()
	simhook.TakeViolation()

	ntasks := t.Pick(0, 3, 3, 2)
	if ntasks == 0 {
		ntasks = 1
	}
	tasks := make([][]*c10Op, ntasks)
	nops := 0
	for i := range tasks {
		tasks[i] = c10GenTask(r, t)
		nops += len(tasks[i])
		for _, op := range tasks[i] {
			r.SigAdd(c10OpNames[op.kind])
			if op.buf != nil {
				r.SigAddBytes(op.buf.Body())
			}
			r.SigAdd(fmt.Sprint(uint32(op.flags), len(op.stream), t.Len()))
		}
	}
	cfg := schedConfig(t, 30*nops)
	// LIFO is the adversarial default for ownership bugs
	r.Fault("pool-policy:" + poolPolicyNames[cfg.PoolPolicy[0]])
	simhook.SetConfig(cfg)

	results := make([]c10TaskRes, ntasks)
	res := simhook.Run(ntasks, cfg, func(task int) { c10Exec(task, tasks[task], &results[task]) })
	r.Steps += int64(res.Points)
	r.SigAdd(fmt.Sprintf("%x", res.Trace))
	pr := simhook.TakeProbes()
	if res.Switches > 0 {
		r.Faults["context-switch"] += int64(res.Switches)
		r.NonTrivial = true
	}
	if pr[simhook.PPoolReuse] > 0 {
		r.Faults["pooled-buffer-poisoned-and-reused"] += pr[simhook.PPoolReuse]
		r.NonTrivial = true
	}
	for i := range results {
		for k, v := range results[i].probes {
			r.ProbeN(k, v)
		}
		for k, v := range results[i].faults {
			r.Faults[k] += v
			if k == "scribble-input-with-live-results" || k == "decoder-refill-between-results" || k == "destination-decoded-into-again" {
				r.NonTrivial = true
			}
		}
	}
	if r.WantSample {
		var ts []any
		for i := range tasks {
			var ops []string
			for _, op := range tasks[i] {
				s := c10OpNames[op.kind]
				if op.ty != nil {
					s += "<" + clipStr(op.ty.String(), 40) + ">"
				}
				if op.buf != nil {
					s += fmt.Sprintf(" in=%dB flags=%#x doc=%q", op.buf.Hi-op.buf.Lo, uint32(op.flags), clip(op.buf.Shadow[op.buf.Lo:op.buf.Hi], 80))
					if op.reuse >= 0 {
						s += fmt.Sprintf(" into-destination-of-op#%d", op.reuse)
					}
				}
				if op.stream != nil {
					s += fmt.Sprintf(" stream=%dB x%d flags=%#x tail=%d", len(op.stream), op.ndecode, uint32(op.flags), op.tail)
				}
				if op.kind == c10Scribble {
					s += fmt.Sprintf(" op#%d", op.target)
				}
				ops = append(ops, s)
			}
			ts = append(ts, ops)
		}
		r.Sample = map[string]any{"tasks": ts, "pool_policy": poolPolicyNames[cfg.PoolPolicy[0]], "strategy": c09ModeNames[cfg.Mode], "scheduling_points": res.Points, "context_switches": res.Switches}
	}

	// ---- oracles ---------------------------------------------------------------
	for i := 0; i < ntasks; i++ {
		if res.Panics[i] != "" {
			if !core.PanicInLibrary(res.Panics[i]) {
				core.Harness("panic in harness code inside simulated goroutine %d: %s", i, res.Panics[i])
			}
			r.Fail("panic", panicKeyOf(res.Panics[i]), "simulated goroutine %d: %s", i, res.Panics[i])
			return
		}
	}
	if v := simhook.TakeViolation(); v != "" {
		r.Fail("pool-monitor", firstWord(v), "%s", v)
		return
	}
	for i := range results {
		if results[i].fail != "" {
			r.Fail("ownership", results[i].failKey, "task %d: %s", i, results[i].fail)
			return
		}
	}
	// end of run: every input still equals its shadow, every result is stable
	for i := range tasks {
		for _, op := range tasks[i] {
			if op.buf != nil {
				if off, ok := op.buf.Unchanged(); !ok {
					r.Fail("ownership", "input-modified-late:"+c10OpNames[op.kind], "task %d: input buffer of %s changed at offset %d after the call had returned", i, c10OpNames[op.kind], off)
					return
				}
			}
		}
		results[i].encoderInputsIntact(tasks[i], len(tasks[i]), "end of run")
		if results[i].fail != "" {
			r.Fail("ownership", results[i].failKey, "task %d: %s", i, results[i].fail)
			return
		}
		n := 0
		for k := range results[i].leaves {
			if results[i].leaves[k].kind == leafMarshal {
				n++
			}
		}
		r.ProbeN("marshal-results-rechecked", int64(n))
		if key, msg := checkLeaves(results[i].leaves, "end of run (after every other call of every simulated goroutine)"); key != "" {
			r.Fail("ownership", key, "task %d: %s", i, msg)
			return
		}
	}
}
