package props

import (
	"bytes"
	"encoding/binary"
	stdjson "encoding/json"
	"fmt"
	"reflect"
	"runtime"
	"runtime/metrics"
	"sort"

	"verifsim/core"
	"verifsim/gen"
	"verifsim/ref"
	"verifsim/tape"

	"github.com/segmentio/encoding/proto"
)

// C07 — proto decoding is total and ignores unknown fields.
//
// The simulated component is the medium: a valid encoding at rest or in flight
// that is torn at every offset, bit-rotted, given inflated lengths or
// over-long varints, has the wire type of a declared field changed, or is
// extended with fields a newer schema would add, at every field boundary of
// every nesting level.

func init() {
	core.Register(&core.Property{
		ID: "C07", Level: "fault_enumeration", Engine: "wirefault",
		Quick: 6000, Thorough: 60000,
		Run:        runC07,
		Rule:       "one run = one generated (type, value) whose encoding E decodes; evaluations = individual faulted decodes: every prefix of E (exhaustive), 6 byte substitutions at every offset (all offsets up to 512 bytes, sampled beyond), every length prefix at every nesting level inflated to 13 values in minimal and padded form, every varint re-encoded over-long, wire-type swaps of every declared field, a foreign field of each wire type and of 3 undeclared numbers inserted at every field boundary of every nesting level, decodes into a different type, random strings. non-trivial = E has at least 2 bytes; distinct = distinct hash of (type, E)",
		FaultKinds: []string{"tear(prefix)", "tear(prefix, rest of the message behind len)", "rot(byte-substitution)", "length-inflation", "overlong-varint", "overflow-varint(10th byte > 1)", "wire-type-swap", "foreign-field:varint", "foreign-field:fixed64", "foreign-field:varlen", "foreign-field:fixed32", "foreign-field-nested-level", "cross-type-decode", "random-bytes", "scaling-probe(n vs 8n elements)", "short-message-after-a-long-one", "destination-decoded-into-again", "deep-nesting-probe", "cut-inside-length-prefix", "cut-inside-embedded-message"},
		ProbeNames: []string{"messages", "roundtrip-precondition-failed(skipped)", "scan-checked", "scan-vs-skip-checked", "alloc-precise-samples", "levels>1", "torn-input-accepted-as-value", "torn-input-rejected", "rot-accepted", "rot-rejected", "inflated-rejected", "E>=128B", "E>=1KiB"},
		Real:       []string{"proto.Unmarshal, proto.Parse, proto.Scan, RawValue methods compiled from /repo's working tree with sync and sync/atomic redirected to the shim (deterministic simulated sync.Pool, pristine library state before every run)"},
		Model:      []string{"storage/transport medium: fault operators over the encoded bytes", "reference protobuf wire parser and schema walker (verifsim/ref) used to locate lengths, varints and field boundaries and to build foreign fields"},
		Assumptions: []string{
			"allocation is measured with runtime/metrics (/gc/heap/allocs:bytes; exact for large objects, lazily flushed for small ones) on every faulted decode and with runtime.ReadMemStats on a sample; the bound is 1 MiB + 1024 x len(input)",
			"for torn, rotted and mistyped input the statement demands only 'an error or a value': nothing more is checked",
			"values whose own encoding does not decode are skipped and counted (round trip is C03, not claimed)",
		},
	})
}

type c07Scenario struct {
	Type   string `json:"type,omitempty"`
	Shape  int    `json:"shape,omitempty"`
	Sparse bool   `json:"sparse,omitempty"`
	NoMaps bool   `json:"no_maps,omitempty"`
	Input  []byte `json:"input"` // the faulted bytes to decode
	// Base, when present, is the unfaulted encoding: the decode of Input must
	// succeed and equal the decode of Base (foreign-field oracle).
	Base []byte `json:"base,omitempty"`
	// SameScan: Input and Base differ in the spelling of a varint only; the oracle
	// is the Scan-versus-Unmarshal one (same fields enumerated, same outcome).
	SameScan bool `json:"same_scan,omitempty"`
}

var allocSample = []metrics.Sample{{Name: "/gc/heap/allocs:bytes"}}

func heapAllocs() uint64 {
	metrics.Read(allocSample)
	return allocSample[0].Value.Uint64()
}

func protoOpaque(t reflect.Type) bool {
	return t == reflect.TypeOf(PMsg{}) || t == reflect.TypeOf(PCustom{}) || t == reflect.TypeOf(PGogo{}) || t == reflect.TypeOf(proto.RawMessage(nil))
}

type c07Ctx struct {
	r       *core.Run
	ty      *simType
	precise bool
	calls   int
	// beyond, when set, is what lies behind the end of the next input within its capacity
	beyond []byte
	// prevX is a destination of the caller's that is decoded into again and again
	prevX reflect.Value
}

var c07Arena []byte

// decode runs Unmarshal on in with the no-panic and allocation oracles; it
// returns the decoded value and the error.
func (c *c07Ctx) decode(in []byte, op string) (reflect.Value, error, bool) {
	r := c.r
	r.Evaluations++
	c.calls++
	x := reflect.New(c.ty.rt)
	// the input always sits at the same address (the caller's one receive buffer,
	// new content every time), with exact capacity: reads past len fault in bounds checks
	if cap(c07Arena) < len(in)+8 {
		c07Arena = make([]byte, 2*len(in)+64)
	}
	// ... at one of two offsets into the caller's buffer: its start, or three bytes in
	// (a message behind a header; not aligned to a word)
	off := (c.calls & 1) * 3
	buf := c07Arena[off : off+len(in) : off+len(in)]
	copy(buf, in)
	if c.beyond != nil && cap(c07Arena) >= off+len(in)+len(c.beyond) {
		// a prefix the caller sliced off in place (msg[:k]): the rest of the message
		// is still there, behind len, inside the capacity
		buf = c07Arena[off : off+len(in)]
		copy(c07Arena[off+len(in):], c.beyond)
	}
	precise := c.precise && c.calls%61 == 0
	var before uint64
	var ms runtime.MemStats
	if precise {
		runtime.ReadMemStats(&ms)
		before = ms.TotalAlloc
		r.Probe("alloc-precise-samples")
	} else {
		before = heapAllocs()
	}
	err, pan := unmarshalNoPanic(buf, x.Interface())
	var after uint64
	if precise {
		runtime.ReadMemStats(&ms)
		after = ms.TotalAlloc
	} else {
		after = heapAllocs()
	}
	if pan == "" && c.calls%5 == 0 {
		// (outside the measured window: repeated fields are appended to, so this
		// destination grows) a destination the caller keeps for message after message
		// receives this one too, merged into what it holds, its byte slices cut to
		// length zero first: no panic, and the input stays as it is (checked below)
		if !c.prevX.IsValid() || c.calls%250 == 0 {
			c.prevX = reflect.New(c.ty.rt)
			if c.calls%500 == 0 {
				// ... which the caller itself filled with full one-element slices
				oneElementSlices(c.prevX.Elem(), 0)
			}
		}
		emptyBytes(c.prevX.Elem(), 0)
		_, pan = unmarshalNoPanic(buf, c.prevX.Interface())
		r.Fault("destination-decoded-into-again")
		if pan == "" {
			if where := lenBeyondCap(c.prevX.Elem(), "", 0); where != "" {
				r.Fail("memory", "slice-length-beyond-capacity", "after decoding into a destination the caller keeps, the slice at %s has a length greater than its capacity: the decoder wrote behind an allocation (type %s)\ninput=%x", where, c.ty.name, clip(in, 200))
				return x, err, false
			}
		}
	}
	fail := func(class, key, format string, a ...any) {
		r.Fail(class, key, format, a...)
		var shape int
		var sp, nm bool
		sc := &c07Scenario{Input: in}
		if n, _ := fmt.Sscanf(c.ty.name, "proto-shape-%d/%t/%t", &shape, &sp, &nm); n == 3 {
			sc.Shape, sc.Sparse, sc.NoMaps = shape, sp, nm
		} else {
			sc.Type = c.ty.name
		}
		r.ScenarioOut = sc
	}
	if pan != "" {
		fail("panic", "unmarshal-panic:"+panicSite(pan), "proto.Unmarshal panicked on %s input (%d bytes, type %s): %s\ninput=%x", op, len(in), c.ty.name, pan, clip(in, 200))
		return x, err, false
	}
	if d := after - before; after > before && d > 1<<20+1024*uint64(len(in)) {
		fail("allocation", "alloc-unbounded:"+op, "proto.Unmarshal allocated %d bytes for a %d-byte %s input (bound 1 MiB + 1024 x len) (type %s)\ninput=%x", d, len(in), op, c.ty.name, clip(in, 200))
		return x, err, false
	}
	if !bytes.Equal(buf, in) {
		fail("input-modified", "input-modified", "proto.Unmarshal modified its input (%s)", op)
		return x, err, false
	}
	// "Scan enumerates exactly the top-level fields that Unmarshal consumes":
	// a target that declares no field consumes every top-level field by
	// skipping it, so Scan must succeed exactly when that Unmarshal succeeds
	// and enumerate as many fields as the reference parser sees.
	if c.calls%3 == 0 || op == "overflow-varint" || op == "overlong-varint" || op == "scenario" {
		var none struct{}
		errSkip, pan1 := unmarshalNoPanic(in, &none)
		n := 0
		errScan, pan2 := scanNoPanic(in, func(proto.FieldNumber, proto.WireType, proto.RawValue) (bool, error) { n++; return true, nil })
		r.Probe("scan-vs-skip-checked")
		if pan1 != "" || pan2 != "" {
			fail("panic", "scan-or-skip-panic:"+panicSite(pan1+pan2), "Scan / Unmarshal into an empty struct panicked on %s input %x: %s%s", op, clip(in, 200), pan1, pan2)
			return x, err, false
		}
		if (errSkip == nil) != (errScan == nil) {
			fail("scan-mismatch", "scan-vs-unmarshal-acceptance", "on this %s input Scan returns %v but Unmarshal into a struct that declares no field (so that every top-level field is consumed by skipping) returns %v\ninput=%x", op, errScan, errSkip, clip(in, 200))
			return x, err, false
		}
		// Parse, called field after field by the caller itself, sees what Scan sees:
		// the same number of fields, the same verdict, and each remainder is the
		// tail of the input it was given
		np, errParse, pan3, badRem := parseChain(in)
		if pan3 != "" {
			fail("panic", "parse-panic:"+panicSite(pan3), "proto.Parse panicked on %s input %x: %s", op, clip(in, 200), pan3)
			return x, err, false
		}
		if (errParse == nil) != (errScan == nil) || np != n {
			fail("scan-mismatch", "parse-vs-scan", "on this %s input a chain of Parse calls yields %d fields then %v, Scan yields %d fields then %v\ninput=%x", op, np, errParse, n, errScan, clip(in, 200))
			return x, err, false
		}
		if badRem != "" {
			fail("scan-mismatch", "parse-remainder", "%s (%s input)\ninput=%x", badRem, op, clip(in, 200))
			return x, err, false
		}
		if errScan == nil {
			if recs, ok := ref.ParseMessage(in); ok && len(recs) != n {
				fail("scan-mismatch", "scan-field-count", "Scan enumerated %d top-level fields, the reference parser sees %d\ninput=%x", n, len(recs), clip(in, 200))
				return x, err, false
			}
		}
	}
	return x, err, true
}

// sameScan reports whether proto.Scan enumerates the same fields for a and b:
// numbers, wire types, and values (varints by value, the rest by content).
func sameScan(a, b []byte) bool {
	type fld struct {
		n  proto.FieldNumber
		t  proto.WireType
		v  uint64
		bs string
	}
	scan := func(in []byte) (out []fld, ok bool) {
		err, pan := scanNoPanic(in, func(n proto.FieldNumber, t proto.WireType, v proto.RawValue) (bool, error) {
			f := fld{n: n, t: t}
			if t == proto.Varint {
				f.v = v.Varint()
			} else {
				f.bs = string(v)
			}
			out = append(out, f)
			return true, nil
		})
		return out, err == nil && pan == ""
	}
	fa, ok1 := scan(a)
	fb, ok2 := scan(b)
	if !ok1 || !ok2 || len(fa) != len(fb) {
		return false
	}
	for i := range fa {
		if fa[i] != fb[i] {
			return false
		}
	}
	return true
}

// oneElementSlices gives every repeated field reachable from v a full slice of one
// zero element (len == cap == 1), as a caller's literal []T{x} has.
func oneElementSlices(v reflect.Value, depth int) {
	if depth > 4 || !v.IsValid() {
		return
	}
	switch v.Kind() {
	case reflect.Struct:
		for i := 0; i < v.NumField(); i++ {
			if v.Type().Field(i).PkgPath == "" {
				oneElementSlices(v.Field(i), depth+1)
			}
		}
	case reflect.Slice:
		if v.Type().Elem().Kind() != reflect.Uint8 && v.CanSet() {
			// (carved out of a larger array of the harness's, so that a write behind
			// the one element lands in memory that nobody else uses)
			v.Set(reflect.MakeSlice(v.Type(), 8, 8).Slice3(0, 1, 1))
		}
	}
}

// lenBeyondCap finds a slice reachable from v whose header says len > cap.
func lenBeyondCap(v reflect.Value, path string, depth int) string {
	if depth > 5 || !v.IsValid() {
		return ""
	}
	switch v.Kind() {
	case reflect.Ptr:
		if !v.IsNil() {
			return lenBeyondCap(v.Elem(), path, depth+1)
		}
	case reflect.Struct:
		for i := 0; i < v.NumField(); i++ {
			if v.Type().Field(i).PkgPath == "" {
				if w := lenBeyondCap(v.Field(i), path+"."+v.Type().Field(i).Name, depth+1); w != "" {
					return w
				}
			}
		}
	case reflect.Slice:
		if v.Len() > v.Cap() {
			return path
		}
	}
	return ""
}

// emptyBytes cuts the []byte fields reachable from v to length zero, as a caller that
// recycles a message does (m.Data = m.Data[:0]).
func emptyBytes(v reflect.Value, depth int) {
	if depth > 6 || !v.IsValid() {
		return
	}
	switch v.Kind() {
	case reflect.Ptr:
		if !v.IsNil() {
			emptyBytes(v.Elem(), depth+1)
		}
	case reflect.Struct:
		for i := 0; i < v.NumField(); i++ {
			if v.Type().Field(i).PkgPath == "" {
				emptyBytes(v.Field(i), depth+1)
			}
		}
	case reflect.Slice:
		if v.Type().Elem().Kind() == reflect.Uint8 && !v.IsNil() && v.CanSet() {
			v.Set(v.Slice(0, 0))
		}
	}
}

// parseChain calls proto.Parse on b, then on the remainder it returned, until
// the input is used up or Parse fails.
func parseChain(b []byte) (n int, err error, pan, badRem string) {
	defer func() {
		if e := recover(); e != nil {
			pan = fmt.Sprintf("%v\n%s", e, stackOfLibrary())
		}
	}()
	off := 0
	for off < len(b) && n <= len(b) {
		_, wt, v, rest, e := proto.Parse(b[off:])
		if e != nil {
			return n, e, "", ""
		}
		n++
		used := len(b) - off - len(rest)
		if used <= 0 || !bytes.Equal(rest, b[off+used:]) {
			return n, nil, "", fmt.Sprintf("Parse at offset %d returned a remainder of %d bytes that is not the tail of its input", off, len(rest))
		}
		if len(v) > used || !bytes.Equal(v, b[off+used-len(v):off+used]) {
			return n, nil, "", fmt.Sprintf("Parse at offset %d returned a value (%d bytes) that is not the end of the field it consumed (%d bytes)", off, len(v), used)
		}
		switch wt {
		case proto.Fixed32:
			if len(v) != 4 {
				return n, nil, "", fmt.Sprintf("Parse at offset %d returned a fixed32 value of %d bytes", off, len(v))
			}
		case proto.Fixed64:
			if len(v) != 8 {
				return n, nil, "", fmt.Sprintf("Parse at offset %d returned a fixed64 value of %d bytes", off, len(v))
			}
		}
		off += used
	}
	return n, nil, "", ""
}

func unmarshalNoPanic(b []byte, x any) (err error, pan string) {
	defer func() {
		if e := recover(); e != nil {
			pan = fmt.Sprintf("%v\n%s", e, stackOfLibrary())
		}
	}()
	err = proto.Unmarshal(b, x)
	return
}

// scanCheck compares proto.Scan with the reference parser on a well-formed message.
func (c *c07Ctx) scanCheck(e []byte) bool {
	r := c.r
	recs, ok := ref.ParseMessage(e)
	if !ok {
		return true
	}
	r.Probe("scan-checked")
	i := 0
	var bad string
	err, pan := scanNoPanic(e, func(f proto.FieldNumber, t proto.WireType, v proto.RawValue) (bool, error) {
		if i >= len(recs) {
			bad = fmt.Sprintf("Scan reported an extra field #%d (number %d)", i, f)
			return false, nil
		}
		rc := recs[i]
		if uint64(f) != rc.Num || int(t) != rc.WT || !bytes.Equal(v, e[rc.VOff:rc.End]) {
			bad = fmt.Sprintf("Scan field #%d: (number %d, wire type %d, value %x), reference parser: (number %d, wire type %d, value %x)", i, f, t, clip(v, 40), rc.Num, rc.WT, clip(e[rc.VOff:rc.End], 40))
			return false, nil
		}
		switch rc.WT {
		case 0:
			if v.Varint() != rc.Val {
				bad = fmt.Sprintf("RawValue.Varint of field #%d = %d, expected %d", i, v.Varint(), rc.Val)
				return false, nil
			}
		case 5:
			if want := binary.LittleEndian.Uint32(e[rc.VOff:rc.End]); v.Fixed32() != want {
				bad = fmt.Sprintf("RawValue.Fixed32 of field #%d = %#x, expected %#x", i, v.Fixed32(), want)
				return false, nil
			}
		case 1:
			if want := binary.LittleEndian.Uint64(e[rc.VOff:rc.End]); v.Fixed64() != want {
				bad = fmt.Sprintf("RawValue.Fixed64 of field #%d = %#x, expected %#x", i, v.Fixed64(), want)
				return false, nil
			}
		}
		i++
		return true, nil
	})
	if pan != "" {
		r.Fail("panic", "scan-panic:"+panicSite(pan), "proto.Scan panicked: %s input=%x", pan, clip(e, 200))
		return false
	}
	if bad == "" && err != nil {
		bad = fmt.Sprintf("Scan failed on a well-formed message: %v", err)
	}
	if bad == "" && i != len(recs) {
		bad = fmt.Sprintf("Scan enumerated %d fields, the message has %d", i, len(recs))
	}
	if bad != "" {
		r.Fail("scan-mismatch", "scan-mismatch", "%s (type %s) input=%x", bad, c.ty.name, clip(e, 200))
		return false
	}
	return true
}

func scanNoPanic(b []byte, fn func(proto.FieldNumber, proto.WireType, proto.RawValue) (bool, error)) (err error, pan string) {
	defer func() {
		if e := recover(); e != nil {
			pan = fmt.Sprintf("%v\n%s", e, stackOfLibrary())
		}
	}()
	err = proto.Scan(b, fn)
	return
}

var inflated = []uint64{1 << 20, 1 << 21, 1 << 24, 1 << 27, 1<<31 - 1, 1 << 31, 1 << 32, 1<<63 - 1, 1 << 63, 1<<64 - 1}

// varintSites lists (offset, length) of every varint (tags, lengths, varint
// values) at every nesting level reachable through the schema.
type vsite struct {
	off, n int
	isLen  bool
	rem    int // length prefixes: bytes remaining after the prefix in the whole message
	sub    bool
	end    int // embedded messages: end offset of the payload
}

func varintSites(e []byte, base int, s *ref.PSchema, total int, out *[]vsite, depth int) {
	recs, ok := ref.ParseMessage(e)
	if !ok || depth > 32 {
		return
	}
	for _, rc := range recs {
		taglen := 0
		if rc.WT == 2 {
			taglen = rc.LOff - rc.Start
		} else {
			taglen = rc.VOff - rc.Start
		}
		*out = append(*out, vsite{off: base + rc.Start, n: taglen})
		switch rc.WT {
		case 0:
			*out = append(*out, vsite{off: base + rc.VOff, n: rc.End - rc.VOff})
		case 2:
			*out = append(*out, vsite{off: base + rc.LOff, n: rc.VOff - rc.LOff, isLen: true, rem: total - (base + rc.VOff), sub: s.Sub[rc.Num] != nil, end: base + rc.End})
			if sub := s.Sub[rc.Num]; sub != nil {
				varintSites(e[rc.VOff:rc.End], base+rc.VOff, sub, total, out, depth+1)
			}
		}
	}
}

func splice(e []byte, off, n int, repl []byte) []byte {
	out := make([]byte, 0, len(e)-n+len(repl))
	out = append(out, e[:off]...)
	out = append(out, repl...)
	return append(out, e[off+n:]...)
}

func c07Type(t *tape.Tape) *simType {
	if t.Chance(1, 4) {
		z := zooFor(gen.Proto)
		return z[t.Intn(len(z))]
	}
	shape := t.Intn(gen.ShapeSpace)
	sparse := t.Chance(1, 3)
	rt := gen.Shape(gen.Proto, shape, sparse, false)
	return &simType{codec: gen.Proto, rt: rt, name: fmt.Sprintf("proto-shape-%d/%v/%v", shape, sparse, false), flags: typeFlags(rt)}
}

func runC07(r *core.Run) {
	resetLibrary()
	t := r.T
	if r.Scenario != nil {
		sc := &c07Scenario{}
		if err := stdjson.Unmarshal(r.Scenario, sc); err != nil {
			core.Harness("C07 scenario: %v", err)
		}
		ty := protoTypeOfScenario(sc.Type, sc.Shape, sc.Sparse, sc.NoMaps)
		warmProto(ty.rt)
		c := &c07Ctx{r: r, ty: ty, precise: true}
		x, err, ok := c.decode(sc.Input, "scenario")
		if ok && sc.Base != nil {
			y, err0, _ := c.decode(sc.Base, "scenario-base")
			if err0 != nil {
				r.Fail("foreign-field", "base-encoding-rejected", "the unfaulted encoding of the scenario is rejected: %v", err0)
				return
			}
			if sc.SameScan {
				if (err != nil || !reflect.DeepEqual(x.Interface(), y.Interface())) && sameScan(sc.Base, sc.Input) {
					r.Fail("scan-mismatch", "unmarshal-consumes-other-fields-than-scan", "Scan enumerates the same top-level fields for input and base; Unmarshal decodes the base and returns err=%v / another value for the input", err)
				}
				return
			}
			if err != nil {
				r.Fail("foreign-field", "foreign-field-rejected", "input with a foreign field is rejected: %v", err)
			} else if !reflect.DeepEqual(x.Interface(), y.Interface()) {
				r.Fail("foreign-field", "foreign-field-changes-value", "input with a foreign field decodes to a different value")
			}
		}
		if ok && r.V == nil {
			c.scanCheck(sc.Input)
		}
		return
	}

	if t.Chance(1, 60) {
		if !c07Scaling(r) {
			return
		}
	}
	if t.Chance(1, 80) {
		if !c07Deep(r) {
			return
		}
	}
	ty := c07Type(t)
	vg := &gen.Values{T: t, C: gen.Proto, MaxMap: 3, MaxLen: 4}
	switch t.Pick(6, 2, 1) {
	case 1:
		vg.MaxLen = 14
	case 2:
		vg.MaxLen = 40
	}
	v := vg.New(ty.rt)
	e, err := protoMarshalNoPanic(protoArg(v))
	maxE := 4 << 10
	if r.Tier == "thorough" {
		maxE = 32 << 10
	}
	if err != nil || len(e) > maxE {
		r.Probe("roundtrip-precondition-failed(skipped)")
		return
	}
	c := &c07Ctx{r: r, ty: ty, precise: true}
	warmProto(ty.rt)
	base, err, ok := c.decode(e, "valid")
	if !ok {
		return
	}
	if err != nil {
		r.Probe("roundtrip-precondition-failed(skipped)")
		return
	}
	r.Probe("messages")
	r.SigAdd(ty.name)
	r.SigAddBytes(e)
	if len(e) >= 2 {
		r.NonTrivial = true
	}
	if len(e) >= 128 {
		r.Probe("E>=128B")
	}
	if len(e) >= 1024 {
		r.Probe("E>=1KiB")
	}
	if r.WantSample {
		r.Sample = map[string]any{"type": clipStr(ty.name+" "+ty.rt.String(), 400), "encoding_hex": fmt.Sprintf("%x", clip(e, 80)), "encoding_len": len(e),
			"operators": "every prefix; 6 substitutions per offset; every length prefix inflated; every varint over-long; wire-type swaps; foreign fields at every boundary of every level; cross-type; random"}
	}
	if !c.scanCheck(e) {
		return
	}
	schema := ref.SchemaOf(ty.rt, protoOpaque)
	var sites []vsite
	varintSites(e, 0, schema, len(e), &sites, 0)

	// 1. tear: every prefix
	inLen := map[int]bool{}
	inSub := map[int]bool{}
	for _, s := range sites {
		if s.isLen {
			for k := s.off + 1; k < s.off+s.n; k++ {
				inLen[k] = true
			}
			if s.sub {
				for k := s.off + s.n + 1; k < s.end; k++ {
					inSub[k] = true
				}
			}
		}
	}
	for k := 0; k < len(e); k++ {
		x0, err, ok := c.decode(e[:k], "torn")
		if !ok {
			return
		}
		r.Fault("tear(prefix)")
		// the same prefix sliced off in place: what lies behind len(b) is not input
		c.beyond = e[k:]
		x1, err1, ok := c.decode(e[:k], "torn-in-place")
		c.beyond = nil
		if !ok {
			return
		}
		r.Fault("tear(prefix, rest of the message behind len)")
		if (err == nil) != (err1 == nil) || (err == nil && !reflect.DeepEqual(x0.Interface(), x1.Interface())) {
			r.Fail("beyond-len", "bytes-behind-len-change-the-result", "the first %d bytes of a %d-byte message decode to err=%v when the slice has no spare capacity and to err=%v (or another value) when the rest of the message lies behind len(b) within its capacity (type %s)\ninput=%x", k, len(e), err, err1, ty.name, clip(e, 300))
			return
		}
		if inLen[k] {
			r.Fault("cut-inside-length-prefix")
		}
		if inSub[k] {
			r.Fault("cut-inside-embedded-message")
		}
		if err == nil {
			r.Probe("torn-input-accepted-as-value")
		} else {
			r.Probe("torn-input-rejected")
		}
	}
	// 2. rot
	step := 1
	if len(e) > 512 {
		step = len(e)/512 + 1
	}
	for off := t.Intn(step); off < len(e); off += step {
		b := e[off]
		for _, nb := range []byte{0x00, 0xFF, ^b, b ^ 0x80, b + 1, b - 1} {
			if nb == b {
				continue
			}
			m := append([]byte(nil), e...)
			m[off] = nb
			_, err, ok := c.decode(m, "rotted")
			if !ok {
				return
			}
			r.Fault("rot(byte-substitution)")
			if err == nil {
				r.Probe("rot-accepted")
			} else {
				r.Probe("rot-rejected")
			}
			if r.Evaluations%7 == 0 {
				if _, pan := scanNoPanic(m, func(proto.FieldNumber, proto.WireType, proto.RawValue) (bool, error) { return true, nil }); pan != "" {
					r.Fail("panic", "scan-panic:"+panicSite(pan), "proto.Scan panicked on rotted input %x: %s", clip(m, 200), pan)
					return
				}
			}
		}
	}
	// 3. length inflation, 4. over-long varints
	for _, s := range sites {
		orig, n := ref.Uvarint(e[s.off:])
		if n != s.n {
			core.Harness("C07: varint site mismatch")
		}
		if s.isLen {
			vals := append([]uint64{uint64(s.rem) + 1, uint64(s.rem) + 2, orig + 1}, inflated...)
			for _, nv := range vals {
				for _, pad := range []int{0, 2} {
					m := splice(e, s.off, s.n, ref.AppendUvarint(nil, nv, pad))
					_, err, ok := c.decode(m, "length-inflated")
					if !ok {
						return
					}
					r.Fault("length-inflation")
					if err != nil {
						r.Probe("inflated-rejected")
					}
				}
			}
		}
		for pad := 1; pad <= 6; pad++ {
			enc := ref.AppendUvarint(nil, orig, pad)
			if len(enc) > 10 && pad != 6 {
				continue
			}
			m := splice(e, s.off, s.n, enc)
			x, err, ok := c.decode(m, "overlong-varint")
			if !ok {
				return
			}
			r.Fault("overlong-varint")
			// "Scan enumerates exactly the top-level fields that Unmarshal consumes":
			// when Scan enumerates for m the very fields it enumerates for E (same
			// numbers, wire types and values — an over-long varint is another
			// spelling of the same number), Unmarshal, consuming those fields, cannot
			// end otherwise than it does on E
			if len(enc) <= 10 && !protoOpaque(ty.rt) && ty.rt.Kind() == reflect.Struct && (err != nil || !reflect.DeepEqual(x.Interface(), base.Interface())) && sameScan(e, m) {
				r.ScenarioOut = c07ScenarioFor(ty, m, e)
				r.ScenarioOut.(*c07Scenario).SameScan = true
				r.Fail("scan-mismatch", "unmarshal-consumes-other-fields-than-scan", "Scan enumerates the same top-level fields (numbers, wire types, values) for both inputs, which differ in the spelling of one varint (%d bytes instead of %d at offset %d); Unmarshal decodes the first and returns err=%v / another value for the second (type %s)\ninput=%x\nbase=%x", len(enc), s.n, s.off, err, c.ty.name, clip(m, 300), clip(e, 300))
				return
			}
		}
		// 10-byte forms whose last byte overflows 64 bits
		for _, last := range []byte{0x02, 0x7f} {
			m := splice(e, s.off, s.n, []byte{0xff, 0xff, 0xff, 0xff, 0xff, 0xff, 0xff, 0xff, 0xff, last})
			if _, _, ok := c.decode(m, "overflow-varint"); !ok {
				return
			}
			r.Fault("overflow-varint(10th byte > 1)")
		}
		// 11-byte form
		m := splice(e, s.off, s.n, []byte{0x80, 0x80, 0x80, 0x80, 0x80, 0x80, 0x80, 0x80, 0x80, 0x80, 0x01})
		if _, _, ok := c.decode(m, "overlong-varint"); !ok {
			return
		}
		r.Fault("overlong-varint")
		// 5. wire-type swap on tags
		if !s.isLen && orig>>3 != 0 && orig < 1<<32 && schemaDeclares(schema, orig>>3) {
			for wt := uint64(0); wt < 8; wt++ {
				if wt == orig&7 {
					continue
				}
				m := splice(e, s.off, s.n, ref.AppendUvarint(nil, orig&^7|wt, 0))
				if _, _, ok := c.decode(m, "wire-type-swapped"); !ok {
					return
				}
				r.Fault("wire-type-swap")
			}
		}
	}
	// 6. foreign fields at every boundary of every level
	root, ok := ref.ParseTree(e, schema, 0)
	if protoOpaque(ty.rt) {
		ok = false // the whole input belongs to the user's Unmarshal: no fields the library could skip
	}
	if ok {
		if !bytes.Equal(root.Bytes(), e) {
			// non-minimal length encodings in E: the tree cannot reproduce it; skip
			ok = false
		}
	}
	if ok {
		levels := root.Levels()
		if len(levels) > 1 {
			r.Probe("levels>1")
		}
		for li, lv := range levels {
			if lv.Schema.IsEntry && len(lv.Recs) == 0 {
				// The library writes an empty map entry as the marker of an empty,
				// non-nil map (its own tests pin that); it is not a key/value pair,
				// so there is no message level to extend here.
				continue
			}
			nums := []uint64{lv.Schema.Max + 1, 1<<29 - 1}
			for g := uint64(1); g < lv.Schema.Max; g++ {
				if !lv.Schema.Declared[g] {
					nums = append(nums, g)
					break
				}
			}
			// undeclared numbers that collide with a declared one when truncated
			// to 8, 16 or 24 bits (a lookup through a narrower integer type)
			for _, d := range declaredSorted(lv.Schema) {
				for _, k := range []uint{8, 16, 24} {
					if a := d + 1<<k; a < 1<<29 && !lv.Schema.Declared[a] {
						nums = append(nums, a)
					}
				}
				break
			}
			// ... and the other way round: the largest declared number truncated
			for _, k := range []uint{8, 16, 24} {
				if a := lv.Schema.Max & (1<<k - 1); a != lv.Schema.Max && a != 0 && !lv.Schema.Declared[a] {
					nums = append(nums, a)
				}
			}
			kept := nums[:0]
			for _, n := range nums {
				if n >= 1 && n < 1<<29 && !lv.Schema.Declared[n] {
					kept = append(kept, n)
				}
			}
			nums = kept
			sort.Slice(nums, func(i, j int) bool { return nums[i] < nums[j] })
			bstep := 1
			if len(lv.Recs) > 24 {
				bstep = len(lv.Recs)/24 + 1
			}
			for bi := 0; bi <= len(lv.Recs); bi += bstep {
				for _, num := range nums {
					for _, wt := range []int{0, 1, 2, 5} {
						var payload []byte
						switch wt {
						case 1:
							payload = []byte{1, 2, 3, 4, 5, 6, 7, 0x88}
						case 5:
							payload = []byte{0xFF, 2, 3, 4}
						case 2:
							payload = make([]byte, t.Intn(24))
							for i := range payload {
								payload[i] = byte(t.Intn(256))
							}
						}
						saved := lv.Recs
						lv.Recs = lv.InsertAt(bi, ref.Foreign(num, wt, payload, t.Uint64()>>uint(t.Intn(64))))
						m := root.Bytes()
						lv.Recs = saved
						x, err, ok := c.decode(m, "foreign-field")
						if !ok {
							return
						}
						r.Fault("foreign-field:" + map[int]string{0: "varint", 1: "fixed64", 2: "varlen", 5: "fixed32"}[wt])
						if li > 0 {
							r.Fault("foreign-field-nested-level")
						}
						if err != nil {
							r.Fail("foreign-field", "foreign-field-rejected", "a well-formed field with undeclared number %d (wire type %d) inserted at boundary %d of message level %d makes Unmarshal fail: %v (type %s)\ninput=%x\nbase=%x", num, wt, bi, li, err, ty.name, clip(m, 300), clip(e, 300))
							r.ScenarioOut = c07ScenarioFor(ty, m, e)
							return
						}
						if !reflect.DeepEqual(x.Interface(), base.Interface()) {
							r.Fail("foreign-field", "foreign-field-changes-value", "a well-formed field with undeclared number %d (wire type %d) inserted at boundary %d of message level %d changes the decoded value (type %s)\ninput=%x\nbase=%x", num, wt, bi, li, ty.name, clip(m, 300), clip(e, 300))
							r.ScenarioOut = c07ScenarioFor(ty, m, e)
							return
						}
						if li == 0 && r.Evaluations%5 == 0 && !c.scanCheck(m) {
							return
						}
					}
				}
			}
		}
	}
	// 7. cross-type decode: the bytes of this message into another type
	for i := 0; i < 3; i++ {
		oty := c07Type(t)
		warmProto(oty.rt)
		oc := &c07Ctx{r: r, ty: oty, precise: false}
		if _, _, ok := oc.decode(e, "cross-type"); !ok {
			return
		}
		r.Fault("cross-type-decode")
	}
	// 8. random strings
	for i := 0; i < 8; i++ {
		n := t.Intn(40)
		m := make([]byte, n)
		for j := range m {
			m[j] = byte(t.Intn(256))
		}
		if _, _, ok := c.decode(m, "random"); !ok {
			return
		}
		r.Fault("random-bytes")
	}
	r.Steps += r.Evaluations
}

// warmProto makes the library build its codec for rt before anything is
// measured: the per-type tables (indexed by field number) are a one-time cost
// of the type, not memory allocated on behalf of an input.
func warmProto(rt reflect.Type) {
	defer func() { recover() }()
	x := reflect.New(rt)
	proto.Unmarshal([]byte{0xf8, 0xff, 0xff, 0xff, 0x0f, 0x00}, x.Interface())
}

func totalAlloc() uint64 {
	var ms runtime.MemStats
	runtime.ReadMemStats(&ms)
	return ms.TotalAlloc
}

// c07Scaling checks that memory allocated grows linearly with the input: a
// message with 8 times as many repeated elements / map entries may allocate at
// most 16 times as much (plus slack).  A constant factor cannot be told from a
// slowly growing one at one input size; the ratio at two sizes can.
func c07Scaling(r *core.Run) bool {
	t := r.T
	type probe struct {
		name string
		rt   reflect.Type
		rec  func(i int) []byte
	}
	probes := []probe{
		{"PWithMsgs.U (repeated varint)", reflect.TypeOf(PWithMsgs{}), func(i int) []byte { return []byte{0x40, byte(i & 0x7f)} }},
		{"PNode.Kids (repeated message)", reflect.TypeOf(PNode{}), func(i int) []byte { return []byte{0x1a, 0x02, 0x08, byte(i & 0x7f)} }},
		{"PMaps.A (map<string,string>)", reflect.TypeOf(PMaps{}), func(i int) []byte {
			return []byte{0x0a, 0x07, 0x0a, 0x03, byte('a' + i%26), byte('a' + (i/26)%26), byte('a' + (i/676)%26), 0x12, 0x00}
		}},
	}
	p := probes[t.Intn(len(probes))]
	n := []int{1500, 2048, 3000}[t.Intn(3)]
	build := func(k int) []byte {
		var b []byte
		for i := 0; i < k; i++ {
			b = append(b, p.rec(i)...)
		}
		return b
	}
	warmProto(p.rt)
	measure := func(in []byte) (uint64, error, string) {
		x := reflect.New(p.rt)
		before := totalAlloc()
		err, pan := unmarshalNoPanic(in, x.Interface())
		return totalAlloc() - before, err, pan
	}
	small, big := build(n), build(8*n)
	a1, e1, p1 := measure(small)
	a8, e8, p8 := measure(big)
	r.Evaluations += 2
	r.Fault("scaling-probe(n vs 8n elements)")
	if p1 != "" || p8 != "" {
		r.Fail("panic", "unmarshal-panic:"+panicSite(p1+p8), "proto.Unmarshal panicked on %d / %d %s: %s%s", n, 8*n, p.name, p1, p8)
		return false
	}
	if e1 != nil || e8 != nil {
		core.Harness("C07 scaling probe input rejected: %v %v", e1, e8)
	}
	// history: after the long message, a short one of the same type whose repeated
	// fields hold one element each (many small collections) costs what it costs on
	// its own, not what the long one did
	{
		var rec []byte
		switch p.name[:5] {
		case "PNode": // Kids[i] = {Kids: [{V: 1}]}, 100 times
			for i := 0; i < 100; i++ {
				rec = append(rec, 0x1a, 0x04, 0x1a, 0x02, 0x08, 0x01)
			}
		default:
			rec = p.rec(1)
		}
		aS, eS, pS := measure(rec)
		r.Evaluations++
		r.Fault("short-message-after-a-long-one")
		if pS != "" {
			r.Fail("panic", "unmarshal-panic:"+panicSite(pS), "proto.Unmarshal panicked on a short message after a long one of the same type (%s): %s", p.name, pS)
			return false
		}
		if eS == nil && aS > 1<<20+1024*uint64(len(rec)) {
			r.Fail("allocation", "alloc-unbounded:short-after-long", "proto.Unmarshal of a %d-byte message of %s allocated %d bytes right after a %d-element message of the same type was decoded (bound 1 MiB + 1024 x len)", len(rec), p.name, aS, 8*n)
			return false
		}
	}
	if a8 > 16*a1+1<<20 {
		r.Fail("allocation", "alloc-superlinear", "proto.Unmarshal of %s: %d elements (%d bytes) allocate %d bytes, %d elements (%d bytes) allocate %d bytes: 8 times the input costs %.1f times the memory (bound 16x + 1 MiB)", p.name, n, len(small), a1, 8*n, len(big), a8, float64(a8)/float64(a1+1))
		return false
	}
	return true
}

// c07Deep: a message nested hundreds to thousands of levels deep (PNode.Next
// inside PNode.Next ...), sound all the way down or defective only at the
// bottom: no panic, and the memory bound of the statement — also for the
// errors that travel back up through every level.
func c07Deep(r *core.Run) bool {
	t := r.T
	depth := []int{300, 1000, 2500, 4000}[t.Intn(4)]
	var bottoms = [][]byte{
		{0x08, 0x05},       // sound: A = 5
		{0x0d, 1, 2, 3, 4}, // field 1 with wire type fixed32 instead of varint
		{0x08, 0x80},       // varint cut by the innermost window
		{0x0b},             // wire type 3 (group start): unknown
		{0x12, 0x05, 0x08}, // nested length exceeding its window
		{0x08, 0xff, 0xff, 0xff, 0xff, 0xff, 0xff, 0xff, 0xff, 0xff, 0x7f}, // overflowing varint
	}
	bottom := bottoms[t.Intn(len(bottoms))]
	msg := append([]byte(nil), bottom...)
	for i := 0; i < depth; i++ {
		// field 2 (Next), length-delimited
		hdr := ref.AppendUvarint([]byte{0x12}, uint64(len(msg)), 0)
		msg = append(hdr, msg...)
	}
	rt := reflect.TypeOf(PNode{})
	warmProto(rt)
	x := reflect.New(rt)
	before := totalAlloc()
	err, pan := unmarshalNoPanic(msg, x.Interface())
	d := totalAlloc() - before
	r.Evaluations++
	r.Fault("deep-nesting-probe")
	if pan != "" {
		r.Fail("panic", "unmarshal-panic:"+panicSite(pan), "proto.Unmarshal panicked on a message nested %d levels deep (bottom %x): %s", depth, bottom, pan)
		return false
	}
	if d > 1<<20+1024*uint64(len(msg)) {
		r.Fail("allocation", "alloc-unbounded:deep-nesting", "proto.Unmarshal allocated %d bytes for a %d-byte message nested %d levels deep whose innermost level is %x (err=%v) (bound 1 MiB + 1024 x len)", d, len(msg), depth, bottom, clipStr(fmt.Sprint(err), 200))
		return false
	}
	var none struct{}
	errSkip, pan1 := unmarshalNoPanic(msg, &none)
	errScan, pan2 := scanNoPanic(msg, func(proto.FieldNumber, proto.WireType, proto.RawValue) (bool, error) { return true, nil })
	if pan1 != "" || pan2 != "" {
		r.Fail("panic", "scan-or-skip-panic:"+panicSite(pan1+pan2), "Scan / Unmarshal into an empty struct panicked on a message nested %d levels deep: %s%s", depth, pan1, pan2)
		return false
	}
	if (errSkip == nil) != (errScan == nil) {
		r.Fail("scan-mismatch", "scan-vs-unmarshal-acceptance", "deeply nested message: Scan returns %v, Unmarshal into a struct that declares no field returns %v", errScan, errSkip)
		return false
	}
	return true
}

func schemaDeclares(s *ref.PSchema, num uint64) bool { return s.Declared[num] }

func declaredSorted(s *ref.PSchema) []uint64 {
	var out []uint64
	for d := range s.Declared {
		out = append(out, d)
	}
	sort.Slice(out, func(i, j int) bool { return out[i] < out[j] })
	return out
}

func c07ScenarioFor(ty *simType, in, base []byte) *c07Scenario {
	sc := &c07Scenario{Input: in, Base: base}
	var shape int
	var sp, nm bool
	if n, _ := fmt.Sscanf(ty.name, "proto-shape-%d/%t/%t", &shape, &sp, &nm); n == 3 {
		sc.Shape, sc.Sparse, sc.NoMaps = shape, sp, nm
	} else {
		sc.Type = ty.name
	}
	return sc
}
