package props

import "github.com/segmentio/encoding/verifshim/simhook"

// resetLibrary returns every cache, pool and lock of the library to its
// pristine state and installs the default (LIFO, maximal reuse) pool policy:
// every simulated run, of every engine, starts from first-use state, so that a
// run never depends on what earlier runs of the same worker process did.
func resetLibrary() {
	simhook.Choose = nil
	simhook.ResetAll()
	simhook.SetConfig(simhook.Config{})
	simhook.TakeProbes()
	simhook.TakeViolation()
}

// poolViolation reports a violation detected inside the simulated pool
// (double put) during a run of a sequential engine.
func poolViolation() string { return simhook.TakeViolation() }
