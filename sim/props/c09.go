package props

import (
	"bytes"
	"fmt"
	"reflect"
	"strings"

	"verifsim/core"
	"verifsim/gen"
	"verifsim/tape"

	"github.com/segmentio/encoding/json"
	"github.com/segmentio/encoding/proto"
	"github.com/segmentio/encoding/thrift"
	"github.com/segmentio/encoding/verifshim/simhook"
)

// C09 — all packages are safe and deterministic under concurrent first use.
//
// One run: pristine caches and pools (ResetAll) → every operation executed
// alone on pristine state (the reference) → pristine again → the same
// operations as 2..6 simulated goroutines under a seeded schedule whose
// scheduling points are the library's own synchronisation operations.  Oracle:
// each operation returns what it returned alone; no data race (race detector,
// schedule-deterministic: the scheduler's hand-offs are invisible to it); pool
// monitors; no panic, no deadlock.

func init() {
	var fk []string
	for m := 0; m < simhook.NumModes; m++ {
		fk = append(fk, "strategy:"+c09ModeNames[m])
	}
	for p := 0; p < simhook.NumPoolPolicies; p++ {
		fk = append(fk, "pool-policy:"+poolPolicyNames[p])
	}
	var pn []string
	for _, n := range simhook.ProbeNames {
		pn = append(pn, n)
	}
	pn = append(pn, "same-type-first-used-by-2+-tasks", "type-nested-in-another-tasks-type", "recursive-type", "map-field-type(proto structPool)", "anymap-of-fresh-types", "ops", "typeof-identity-checked", "result-stability-checked", "steady-state-rechecked", "corrupted-input-ops", "case-changed-keys", "marshal-output>64KiB", "marshal-of-a-map-with-127..300-keys", "raw-messages-in-a-reused-buffer", "read-only-input-shared-by-several-calls", "writes-behind-a-window-being-parsed", "calls-on-unsupported-types", "caches-prewarmed-with-many-types")
	core.Register(&core.Property{
		ID: "C09", Level: "exploration", Engine: "sched", Race: true, Sched: true,
		Quick: 60000, Thorough: 3000000,
		Run:        runC09,
		Setup:      schedSetup,
		FaultKinds: fk,
		ProbeNames: pn,
		Rule:       "one run = (type set, operations per simulated goroutine, scheduling strategy, pool policies, schedule) drawn from the tape, on pristine caches and pools; non-trivial = at least one context switch happened between two simulated goroutines inside the library; distinct = distinct hash of (operations, sequence of (task, scheduling-point kind, object) of the whole concurrent phase)",
		Real:       []string{"json, proto, thrift compiled from /repo's working tree with imports of sync and sync/atomic redirected to the shim (every real atomic / mutex operation still executes)", "Go race detector (-race), seeing only the library's own happens-before edges"},
		Model:      []string{"scheduler: token passing over real goroutines, one runnable at a time, choices from the tape", "sync.Pool: simulated pool (LIFO/FIFO/random/never-reuse/drop), put→get edge reproduced with RaceReleaseMerge/RaceAcquire, poison on put, double-put monitor", "reference: the same operation executed alone on pristine state"},
		Assumptions: []string{
			"shim fidelity: each shim operation = scheduling point + the real operation; cooperative spinning replaces blocking in Mutex/RWMutex/Once",
			"interleaving only at synchronisation operations: for data-race-free executions the Go memory model guarantees sequential consistency; racy executions are reported by the race detector instead",
			"the race detector's bounded shadow history; weak-memory effects below the Go memory model are out of scope",
			"Go map iteration order is not seedable: multi-entry maps are only encoded through key-sorting paths; proto/thrift encode operations use maps of at most one entry",
			"GOMAXPROCS is irrelevant inside the simulator (one runnable goroutine); the determinism self-test runs at 1/4/16",
		},
	})
}

var c09ModeNames = []string{"random", "pct", "load-biased"}
var poolPolicyNames = []string{"lifo", "fifo", "random", "never-reuse", "drop-on-put"}

// schedSetup points the scheduler's choice source at nothing; runs install
// their own tape.
func schedSetup() {}

const (
	opJSONMarshal = iota
	opJSONAppend
	opJSONUnmarshal
	opJSONParse
	opJSONEncoder
	opJSONDecoder
	opJSONTokenizer
	opJSONMarshalAnyMap
	opJSONTokenizerReuse
	opProtoMarshal
	opProtoSize
	opProtoUnmarshal
	opProtoMarshalTo
	opProtoTypeOf
	opThriftMarshal
	opThriftUnmarshal
	opJSONMarshalRawInPlace
	opWriteBehindInput
	opUnsupportedType
	numOps
)

var opNames = []string{"json.Marshal", "json.Append", "json.Unmarshal", "json.Parse", "json.Encoder.Encode", "json.Decoder.Decode", "json.Tokenizer", "json.Marshal(map[string]any of fresh types)", "json.Tokenizer(error, Reset, reuse)",
	"proto.Marshal", "proto.Size", "proto.Unmarshal", "proto.MarshalTo", "proto.TypeOf", "thrift.Marshal", "thrift.Unmarshal", "json.Marshal(RawMessage in the caller's reused buffer)", "caller writes behind the window another call is parsing", "a type the codec refuses (error or recovered panic)"}

type c09Op struct {
	kind    int
	ty      *simType
	val     reflect.Value // pointer to the value (encode ops)
	vals    map[string]any
	input   []byte
	compact bool
	flags   json.AppendFlags
	pflags  json.ParseFlags
	corrupt bool
	// caseChanged: the keys of the input document are in another case
	caseChanged bool
	// big: a Marshal whose output exceeds 64 KiB
	big bool
	// bigMap: a Marshal of a map with 127..300 keys
	bigMap bool
	// raw in place: the document is copied into the task's one buffer (arena) and
	// marshalled from there as a json.RawMessage
	arena  []byte
	rawDoc []byte
	// spare is the caller's memory behind the window op.input; target is the
	// operation whose spare an opWriteBehindInput writes to
	spare  []byte
	target *c09Op
	sub    int
}

type c09Res struct {
	out   []byte
	snap  []byte
	val   any
	err   string
	n     int
	ptype proto.Type
	panic string
}

var (
	binProto = &thrift.BinaryProtocol{}
	cmpProto = &thrift.CompactProtocol{}
)

func (op *c09Op) String() string {
	s := opNames[op.kind]
	if op.ty != nil {
		s += "<" + op.ty.name + ">"
	}
	if op.kind == opThriftMarshal || op.kind == opThriftUnmarshal {
		if op.compact {
			s += "[compact]"
		} else {
			s += "[binary]"
		}
	}
	if op.input != nil {
		s += fmt.Sprintf(" in=%dB", len(op.input))
	}
	if op.corrupt {
		s += " (corrupted)"
	}
	return s
}

func errStr(err error) string {
	if err == nil {
		return ""
	}
	return "error: " + err.Error()
}

// exec performs one operation.  It touches no shared harness state.
func (op *c09Op) exec() (res c09Res) {
	defer func() {
		if e := recover(); e != nil {
			res.panic = fmt.Sprint(e)
		}
	}()
	switch op.kind {
	case opJSONMarshal:
		b, err := json.Marshal(op.val.Interface())
		res.out, res.err = ownSpare(b), errStr(err)
	case opJSONMarshalAnyMap:
		b, err := json.Marshal(op.vals)
		res.out, res.err = ownSpare(b), errStr(err)
	case opUnsupportedType:
		// the call fails (error, or a panic the caller recovers) as it does alone,
		// and leaves the package usable for everybody else
		func() {
			defer func() {
				if e := recover(); e != nil {
					res.err = "panic: " + clipStr(fmt.Sprint(e), 120)
				}
			}()
			bad := c09BadValues[op.sub%len(c09BadValues)]
			switch op.sub / len(c09BadValues) % 4 {
			case 0:
				_, err := json.Marshal(bad)
				res.err = errStr(err)
			case 1:
				res.out = []byte(fmt.Sprint(proto.TypeOf(reflect.TypeOf(bad))))
			case 2:
				_, err := proto.Marshal(bad)
				res.err = errStr(err)
			default:
				_, err := thrift.Marshal(binProto, bad)
				res.err = errStr(err)
			}
		}()
	case opWriteBehindInput:
		// the caller goes on filling its buffer behind the window it handed out
		for i := range op.target.spare {
			op.target.spare[i] = "\"x]}"[i%4]
		}
	case opJSONMarshalRawInPlace:
		for i := range op.rawDoc {
			op.arena[i] = op.rawDoc[i]
		}
		b, err := json.Marshal(json.RawMessage(op.arena[:len(op.rawDoc)]))
		res.out, res.err = ownSpare(b), errStr(err)
	case opJSONAppend:
		b, err := json.Append(make([]byte, 0, 16), op.val.Interface(), op.flags)
		res.out, res.err = b, errStr(err)
	case opJSONEncoder:
		// the writer is user code: it lets other simulated goroutines run while
		// it still holds the slice it was lent, and only then consumes it
		w := &yieldingWriter{}
		enc := json.NewEncoder(w)
		err := enc.Encode(op.val.Interface())
		if err == nil {
			err = enc.Encode(op.val.Interface())
		}
		res.out, res.err = w.out, errStr(err)
	case opJSONUnmarshal:
		x := reflect.New(op.ty.rt)
		err := json.Unmarshal(op.input, x.Interface())
		res.val, res.err = x.Interface(), errStr(err)
	case opJSONParse:
		x := reflect.New(op.ty.rt)
		rem, err := json.Parse(op.input, x.Interface(), op.pflags)
		res.val, res.err, res.n = x.Interface(), errStr(err), len(rem)
	case opJSONDecoder:
		x := reflect.New(op.ty.rt)
		dec := json.NewDecoder(bytes.NewReader(op.input))
		err := dec.Decode(x.Interface())
		res.val, res.err = x.Interface(), errStr(err)
	case opJSONTokenizerReuse:
		// a tokenizer that failed with open scopes, is Reset and used again,
		// interleaved with whatever the other simulated goroutines tokenize
		var sig []byte
		tok := json.NewTokenizer([]byte(`{"a":[1,{"b":[2,}`))
		for tok.Next() {
			simhook.Yield(simhook.KOp, -1)
		}
		sig = fmt.Appendf(sig, "err=%v;", tok.Err != nil)
		tok.Reset(op.input)
		for tok.Next() {
			sig = append(sig, tok.Value...)
			sig = fmt.Appendf(sig, "@%d.%d.%v ", tok.Depth, tok.Index, tok.IsKey)
			simhook.Yield(simhook.KOp, -1)
		}
		res.out, res.err = sig, errStr(tok.Err)
	case opJSONTokenizer:
		var sig []byte
		tok := json.NewTokenizer(op.input)
		for tok.Next() {
			sig = append(sig, tok.Value...)
			sig = fmt.Appendf(sig, "@%d.%d.%v ", tok.Depth, tok.Index, tok.IsKey)
			simhook.Yield(simhook.KOp, -1)
		}
		res.out, res.err = sig, errStr(tok.Err)
	case opProtoMarshal:
		b, err := proto.Marshal(protoArg(op.val))
		res.out, res.err = b, errStr(err)
	case opProtoSize:
		res.n = proto.Size(protoArg(op.val))
	case opProtoMarshalTo:
		b := make([]byte, len(op.input))
		n, err := proto.MarshalTo(b, protoArg(op.val))
		res.out, res.err, res.n = b, errStr(err), n
	case opProtoUnmarshal:
		x := reflect.New(op.ty.rt)
		err := proto.Unmarshal(op.input, x.Interface())
		res.val, res.err = x.Interface(), errStr(err)
	case opProtoTypeOf:
		t := proto.TypeOf(op.ty.rt)
		res.ptype = t
		res.out = []byte(describeProtoType(t, 0))
	case opThriftMarshal:
		var p thrift.Protocol = binProto
		if op.compact {
			p = cmpProto
		}
		b, err := thrift.Marshal(p, op.val.Elem().Interface())
		res.out, res.err = b, errStr(err)
	case opThriftUnmarshal:
		var p thrift.Protocol = binProto
		if op.compact {
			p = cmpProto
		}
		x := reflect.New(op.ty.rt)
		err := thrift.Unmarshal(p, op.input, x.Interface())
		res.val, res.err = x.Interface(), errStr(err)
	}
	if res.out != nil {
		res.snap = append([]byte(nil), res.out...)
	}
	return
}

type yieldingWriter struct{ out []byte }

func (w *yieldingWriter) Write(p []byte) (int, error) {
	simhook.Yield(simhook.KOp, -1)
	w.out = append(w.out, p...)
	return len(p), nil
}

// ownSpare is what a caller may do with a slice it was given: append to it in
// place.  The spare capacity is filled and becomes part of the tracked result,
// so memory the library still uses behind the result shows as a change.
func ownSpare(b []byte) []byte {
	if cap(b) == len(b) || b == nil {
		return b
	}
	ext := b[:cap(b)]
	for i := len(b); i < len(ext); i++ {
		ext[i] = 0xEE
	}
	return ext
}

func isJSONDecode(k int) bool {
	return k == opJSONUnmarshal || k == opJSONParse || k == opJSONDecoder || k == opJSONTokenizer
}

// values of types the codecs refuse: each call fails on its own
var c09BadValues = []any{
	struct{ C chan int }{},
	struct{ F func() }{},
	struct {
		A int        `protobuf:"varint,1,opt,name=a" thrift:"1"`
		Z complex128 `protobuf:"fixed64,2,opt,name=z" thrift:"2"`
	}{},
	&struct{ C chan int }{},
}

var c09WarmTypes []reflect.Type

// c09Prewarm makes the three codecs build and cache n distinct one-field types.
func c09Prewarm(n int) {
	for len(c09WarmTypes) < n {
		i := len(c09WarmTypes)
		c09WarmTypes = append(c09WarmTypes, reflect.StructOf([]reflect.StructField{{
			Name: fmt.Sprintf("W%d", i), Type: reflect.TypeOf(int32(0)),
			Tag: reflect.StructTag(`json:"w" protobuf:"varint,1,opt,name=w" thrift:"1"`),
		}}))
	}
	defer func() { recover() }()
	for i := 0; i < n; i++ {
		v := reflect.New(c09WarmTypes[i])
		json.Marshal(v.Interface())
		proto.Size(v.Interface())
		thrift.Marshal(binProto, v.Elem().Interface())
	}
}

// c09Theme is the theme of the run being generated (one run at a time per process).
var c09Theme int

var c09BigMaps = map[[2]int]reflect.Value{}

// c09BigMap returns a pointer to a map with n string keys (kind 0: any values,
// 1: strings, 2: bools), built once per process and only ever read.
func c09BigMap(kind, n int) reflect.Value {
	if v, ok := c09BigMaps[[2]int{kind, n}]; ok {
		return v
	}
	var v reflect.Value
	switch kind {
	case 0:
		m := map[string]any{}
		for i := 0; i < n; i++ {
			m[fmt.Sprintf("key-%04d", (i*7919)%n)] = []any{i, "v", true, nil}[i%4]
		}
		v = reflect.ValueOf(&m)
	case 1:
		m := map[string]string{}
		for i := 0; i < n; i++ {
			m[fmt.Sprintf("key-%04d", (i*7919)%n)] = fmt.Sprint(i)
		}
		v = reflect.ValueOf(&m)
	default:
		m := map[string]bool{}
		for i := 0; i < n; i++ {
			m[fmt.Sprintf("key-%04d", (i*7919)%n)] = i%3 == 0
		}
		v = reflect.ValueOf(&m)
	}
	c09BigMaps[[2]int{kind, n}] = v
	return v
}

var c09BigStrings = map[int]*string{}

func c09BigString(n int) *string {
	if s := c09BigStrings[n]; s != nil {
		return s
	}
	s := strings.Repeat("big-output-", n/11+1)[:n]
	c09BigStrings[n] = &s
	return &s
}

func describeProtoType(t proto.Type, depth int) (s string) {
	defer func() {
		if e := recover(); e != nil {
			s += fmt.Sprintf("!panic(%v)", e)
		}
	}()
	if t == nil {
		return "<nil>"
	}
	s = fmt.Sprintf("%s/%v/%v", t.Name(), t.Kind(), t.WireType())
	if depth > 2 {
		return s
	}
	n := t.NumField()
	for i := 0; i < n; i++ {
		f := t.Field(i)
		ft := "<nil>"
		if f.Type != nil {
			ft = f.Type.Name()
		}
		s += fmt.Sprintf("{%d:%s:%s:%v}", f.Number, f.Name, ft, f.Repeated)
		// the lookups by name and by number find the same field
		if g := t.FieldByName(f.Name); g.Number != f.Number || g.Index != f.Index {
			s += fmt.Sprintf("!FieldByName(%s)=%d/%d", f.Name, g.Number, g.Index)
		}
		if g := t.FieldByNumber(f.Number); g.Name != f.Name || g.Index != f.Index {
			s += fmt.Sprintf("!FieldByNumber(%d)=%s/%d", f.Number, g.Name, g.Index)
		}
	}
	if depth == 0 {
		s += "|" + t.String()
	}
	return s
}

func sameRes(a, b *c09Res) (bool, string) {
	if a.panic != b.panic {
		return false, fmt.Sprintf("panic %q vs alone %q", a.panic, b.panic)
	}
	if a.err != b.err {
		return false, fmt.Sprintf("error %q vs alone %q", a.err, b.err)
	}
	if a.n != b.n {
		return false, fmt.Sprintf("count %d vs alone %d", a.n, b.n)
	}
	if !bytes.Equal(a.snap, b.snap) {
		return false, fmt.Sprintf("bytes %q vs alone %q", clip(a.snap, 160), clip(b.snap, 160))
	}
	if !sameValue(a.val, b.val) {
		return false, fmt.Sprintf("decoded value %s vs alone %s", show(a.val), show(b.val))
	}
	return true, ""
}

// ---- type pool of a run ---------------------------------------------------------

func c09Types(t *tape.Tape) []*simType {
	n := t.Range(2, 6)
	var out []*simType
	for i := 0; i < n; i++ {
		c := gen.Codec(t.Intn(3))
		if t.Chance(1, 3) {
			z := zooFor(c)
			out = append(out, z[t.Intn(len(z))])
			continue
		}
		shape := t.Intn(gen.ShapeSpace)
		sparse := c != gen.JSON && t.Chance(1, 8)
		rt := gen.Shape(c, shape, sparse, false)
		out = append(out, &simType{codec: c, rt: rt, name: fmt.Sprintf("%s-shape-%d", c, shape), flags: typeFlags(rt)})
	}
	// nesting: sometimes add a type that embeds another member of the pool, so
	// that one task's construction contains a type another task builds at top level
	if t.Chance(1, 2) {
		inner := out[t.Intn(len(out))]
		var tag1, tag2 reflect.StructTag
		switch inner.codec {
		case gen.Proto:
			tag1, tag2 = `protobuf:"bytes,1,opt,name=a"`, `protobuf:"bytes,2,rep,name=b"`
		case gen.Thrift:
			tag1, tag2 = `thrift:"1"`, `thrift:"2"`
		}
		rt := reflect.StructOf([]reflect.StructField{
			{Name: "A", Type: reflect.PointerTo(inner.rt), Tag: tag1},
			{Name: "B", Type: reflect.SliceOf(inner.rt), Tag: tag2},
		})
		out = append(out, &simType{codec: inner.codec, rt: rt, name: "nest(" + inner.name + ")", flags: "nested " + typeFlags(rt)})
	}
	return out
}

// c09MakeOp draws an operation over ty; encode-side inputs are produced with the
// library itself during setup (state is reset afterwards).
func c09MakeOp(t *tape.Tape, ty *simType, pool []*simType) *c09Op {
	vg := &gen.Values{T: t, C: ty.codec, MaxMap: 3, MaxLen: 4}
	if ty.codec != gen.JSON {
		// proto and thrift encode maps in Go's unseedable iteration order: a
		// multi-entry map would make the setup-time encoding (the decode input),
		// and with it the sequence of scheduling points, differ between two
		// executions of the same tape.
		vg.MaxMap = 1
	}
	op := &c09Op{ty: ty}
	if c09Theme == 1 && t.Chance(2, 3) {
		op.kind = opJSONMarshal
		op.val = c09BigMap(t.Intn(3), []int{127, 128, 129, 200, 300}[t.Intn(5)])
		op.bigMap = true
		return op
	}
	switch ty.codec {
	case gen.JSON:
		op.kind = []int{opJSONMarshal, opJSONAppend, opJSONUnmarshal, opJSONParse, opJSONEncoder, opJSONDecoder, opJSONTokenizer, opJSONMarshalAnyMap, opJSONMarshal, opJSONUnmarshal, opJSONTokenizerReuse, opJSONEncoder}[t.Intn(12)]
		op.val = vg.New(ty.rt)
		if op.kind == opJSONMarshal && t.Chance(1, 30) {
			// an output beyond 64 KiB (the encoder's pooled buffer grows past any
			// threshold a shortcut could be tied to)
			op.val = reflect.ValueOf(c09BigString([]int{66000, 100000, 150000, 200000, 65534}[t.Intn(5)]))
			op.big = true
		}
		if op.kind == opJSONMarshal && !op.big && t.Chance(1, 25) {
			// a map with enough keys for the sort scratch to matter (and to outgrow it)
			op.val = c09BigMap(t.Intn(3), []int{127, 128, 129, 200, 300}[t.Intn(5)])
			op.bigMap = true
		}
		switch op.kind {
		case opJSONAppend:
			op.flags = json.SortMapKeys
			if t.Bool() {
				op.flags |= json.EscapeHTML
			}
		case opJSONUnmarshal, opJSONParse, opJSONDecoder, opJSONTokenizer, opJSONTokenizerReuse:
			b, err := json.Marshal(op.val.Interface())
			if err != nil {
				b = []byte(`{"unencodable":true}`)
			}
			if t.Chance(1, 3) {
				// keys in another case: the case-insensitive fallback of the struct decoder
				b = swapKeyCase(b, t.Bool())
				op.caseChanged = true
			}
			if op.kind == opJSONParse && t.Chance(1, 3) {
				op.pflags = json.DontMatchCaseInsensitiveStructFields
			}
			if op.kind == opJSONParse && t.Chance(1, 3) {
				op.pflags |= []json.ParseFlags{json.DontCopyString, json.ZeroCopy, json.DontCopyRawMessage | json.DontCopyNumber}[t.Intn(3)]
			}
			// the input is a window into a larger buffer of the caller's: what lies
			// behind it (a closing quote first) is the caller's to write to
			buf := make([]byte, len(b)+len(c17Behind))
			copy(buf, b)
			copy(buf[len(b):], c17Behind)
			op.input, op.spare = buf[:len(b)], buf[len(b):]
		case opJSONMarshalAnyMap:
			op.vals = map[string]any{}
			n := t.Range(1, 3)
			for i := 0; i < n; i++ {
				var jt []*simType
				for _, p := range pool {
					if p.codec == gen.JSON {
						jt = append(jt, p)
					}
				}
				p := jt[t.Intn(len(jt))]
				v := vg.New(p.rt)
				if t.Bool() {
					op.vals[fmt.Sprintf("k%d", i)] = v.Interface()
				} else {
					op.vals[fmt.Sprintf("k%d", i)] = v.Elem().Interface()
				}
			}
		}
	case gen.Proto:
		op.kind = []int{opProtoMarshal, opProtoSize, opProtoUnmarshal, opProtoMarshalTo, opProtoTypeOf, opProtoUnmarshal, opProtoMarshal}[t.Intn(7)]
		switch op.kind {
		case opProtoMarshal, opProtoSize, opProtoMarshalTo:
			vg.MaxMap = 1
			op.val = vg.New(ty.rt)
			if op.kind == opProtoMarshalTo {
				n := protoSizeSafe(protoArg(op.val))
				switch t.Pick(3, 1, 1) {
				case 1:
					n += t.Range(1, 8)
				case 2:
					if n > 0 {
						n = t.Intn(n)
					}
				}
				op.input = make([]byte, n)
			}
		case opProtoUnmarshal:
			op.val = vg.New(ty.rt)
			b, err := protoMarshalSafe(protoArg(op.val))
			if err != nil {
				b = nil
			}
			op.input = b
		}
	case gen.Thrift:
		op.kind = []int{opThriftMarshal, opThriftUnmarshal}[t.Intn(2)]
		op.compact = t.Bool()
		if op.kind == opThriftMarshal {
			vg.MaxMap = 1
		}
		op.val = vg.New(ty.rt)
		if op.kind == opThriftUnmarshal {
			var p thrift.Protocol = binProto
			if op.compact {
				p = cmpProto
			}
			b, err := thriftMarshalSafe(p, op.val.Elem().Interface())
			if err != nil {
				b = []byte{0}
			}
			op.input = b
		}
	}
	// a corrupted input: the call fails (or decodes something else) — alone and
	// in company alike — and must leave nothing behind that changes what the
	// other calls return
	if op.input != nil && len(op.input) > 1 && op.kind != opProtoMarshalTo && t.Chance(1, 5) {
		in := append([]byte(nil), op.input...)
		switch t.Intn(4) {
		case 0:
			in = in[:1+t.Intn(len(in)-1)]
		case 1:
			in[t.Intn(len(in))] ^= byte(1 << uint(t.Intn(8)))
		case 2:
			i := t.Intn(len(in))
			in[i] = (in[i] &^ 7) | byte(t.Intn(8))
		default:
			in[t.Intn(len(in))] = 0xff
		}
		op.input, op.corrupt = in, true
	}
	return op
}

// swapKeyCase changes the case of the ASCII letters of every object key.
func swapKeyCase(doc []byte, upper bool) []byte {
	out := append([]byte(nil), doc...)
	in := false
	start := -1
	for i := 0; i < len(out); i++ {
		switch {
		case in && out[i] == '\\':
			i++
		case out[i] == '"':
			if !in {
				start = i
			} else {
				// a key is a string followed by ':'
				j := i + 1
				for j < len(out) && (out[j] == ' ' || out[j] == '\n') {
					j++
				}
				if j < len(out) && out[j] == ':' {
					for k := start + 1; k < i; k++ {
						c := out[k]
						if out[k-1] == '\\' {
							continue
						}
						if upper && c >= 'a' && c <= 'z' {
							out[k] = c - 32
						} else if !upper && c >= 'A' && c <= 'Z' {
							out[k] = c + 32
						}
					}
				}
			}
			in = !in
		}
	}
	return out
}

func protoSizeSafe(v any) (n int) {
	defer func() { recover() }()
	return proto.Size(v)
}

func protoMarshalSafe(v any) (b []byte, err error) {
	defer func() {
		if e := recover(); e != nil {
			err = fmt.Errorf("panic: %v", e)
		}
	}()
	return proto.Marshal(v)
}

func thriftMarshalSafe(p thrift.Protocol, v any) (b []byte, err error) {
	defer func() {
		if e := recover(); e != nil {
			err = fmt.Errorf("panic: %v", e)
		}
	}()
	return thrift.Marshal(p, v)
}

func schedConfig(t *tape.Tape, estSteps int) simhook.Config {
	var cfg simhook.Config
	cfg.Mode = t.Pick(4, 3, 3)
	cfg.SwitchDen = []int{2, 3, 4, 8, 16}[t.Intn(5)]
	cfg.Depth = t.Range(1, 3)
	cfg.EstSteps = estSteps
	same := t.Pick(6, 1, 1, 1, 1)
	for i := range cfg.PoolPolicy {
		cfg.PoolPolicy[i] = uint8(same)
	}
	if t.Chance(1, 4) {
		for i := 0; i < 8; i++ {
			cfg.PoolPolicy[i] = uint8(t.Intn(simhook.NumPoolPolicies))
		}
	}
	cfg.PoolDropDen = t.Range(1, 3)
	return cfg
}

func runC09(r *core.Run) {
	t := r.T
	simhook.Choose = t.Intn
	simhook.ResetAll()
	simhook.SetConfig(simhook.Config{}) // setup-time library calls must not see the previous run's pool policies
	simhook.TakeProbes()
	simhook.TakeViolation()

	// swarm: some runs have a theme (several operations of one rare kind meet)
	c09Theme = 0
	if t.Chance(1, 30) {
		c09Theme = 1 // marshals of maps with 127..300 keys
	}
	pool := c09Types(t)
	ntasks := t.Range(2, 6)
	maxOps := 4
	if r.Tier == "thorough" && t.Chance(1, 3) {
		// deeper bounds in the thorough tier: more simulated goroutines, longer scripts
		ntasks = t.Range(2, simhook.MaxTasks)
		maxOps = 7
	}
	tasks := make([][]*c09Op, ntasks)
	lastDecode := map[*simType]*c09Op{}
	var spareTargets []*c09Op
	spareTaken := map[*byte]bool{}
	rawTheme := t.Chance(1, 25)
	arenas := make([][]byte, ntasks)
	for i := range arenas {
		arenas[i] = make([]byte, 256)
	}
	// the first type of the pool is "hot": every task is likely to use it first
	hot := pool[t.Intn(len(pool))]
	nops := 0
	usedBy := map[*simType]map[int]bool{}
	for i := range tasks {
		k := t.Range(1, maxOps)
		for j := 0; j < k; j++ {
			ty := pool[t.Intn(len(pool))]
			if j == 0 && t.Chance(2, 3) {
				ty = hot
			}
			op := c09MakeOp(t, ty, pool)
			if t.Chance(1, 40) {
				op = &c09Op{ty: ty, kind: opUnsupportedType, sub: t.Intn(64)}
				r.Probe("calls-on-unsupported-types")
			}
			if rawTheme && t.Chance(1, 2) {
				// records of one size read into the task's one buffer and passed on as
				// json.RawMessage: full-length, shorter and padded, or corrupted
				op = &c09Op{ty: ty, kind: opJSONMarshalRawInPlace, arena: arenas[i]}
				doc := []byte(`{"record":"`)
				for len(doc) < 158 {
					doc = append(doc, byte('a'+t.Intn(26)))
				}
				doc = append(doc, '"', '}')
				switch t.Intn(3) {
				case 1:
					n := t.Range(20, 120)
					doc = append(append(doc[:n:n], '"', '}'), bytes.Repeat([]byte{' '}, 158-n)...)
				case 2:
					doc[t.Intn(len(doc))] = "]}\"\\,:"[t.Intn(6)]
				}
				op.rawDoc = doc
				r.Probe("raw-messages-in-a-reused-buffer")
			}
			// some calls share one read-only input (the same bytes, the same memory)
			if isJSONDecode(op.kind) && !op.corrupt {
				if prev := lastDecode[ty]; prev != nil && t.Chance(1, 3) {
					op.input, op.spare = prev.input, prev.spare
					r.Probe("read-only-input-shared-by-several-calls")
				} else {
					lastDecode[ty] = op
				}
				if op.spare != nil && !spareTaken[&op.spare[0]] && t.Chance(1, 4) {
					// one writer per window, and no other access of the harness to it
					spareTaken[&op.spare[0]] = true
					spareTargets = append(spareTargets, op)
				}
			}
			if op.corrupt {
				r.Probe("corrupted-input-ops")
			}
			if op.caseChanged {
				r.Probe("case-changed-keys")
			}
			if op.big {
				r.Probe("marshal-output>64KiB")
			}
			if op.bigMap {
				r.Probe("marshal-of-a-map-with-127..300-keys")
			}
			tasks[i] = append(tasks[i], op)
			nops++
			if usedBy[ty] == nil {
				usedBy[ty] = map[int]bool{}
			}
			usedBy[ty][i] = true
			r.SigAdd(op.String())
			r.SigAdd(fmt.Sprint(t.Len()))
		}
	}
	// for some windows, another task writes behind them at some point of its script
	for _, tg := range spareTargets {
		i := t.Intn(ntasks)
		at := t.Intn(len(tasks[i]) + 1)
		wop := &c09Op{kind: opWriteBehindInput, ty: tg.ty, target: tg}
		tasks[i] = append(tasks[i][:at:at], append([]*c09Op{wop}, tasks[i][at:]...)...)
		nops++
		r.Probe("writes-behind-a-window-being-parsed")
	}
	r.ProbeN("ops", int64(nops))
	for ty, u := range usedBy {
		if len(u) >= 2 {
			r.Probe("same-type-first-used-by-2+-tasks")
		}
		if strings.Contains(ty.flags, "nested") {
			r.Probe("type-nested-in-another-tasks-type")
		}
		if strings.Contains(ty.flags, "recursive") {
			r.Probe("recursive-type")
		}
		if strings.Contains(ty.flags, "mapfield") && ty.codec == gen.Proto {
			r.Probe("map-field-type(proto structPool)")
		}
	}

	// sometimes the caches already hold many types when the concurrent first uses
	// happen (growth policies of a cache may change with its size)
	warm := 0
	if t.Chance(1, 50) {
		warm = []int{70, 130, 130, 260}[t.Intn(4)]
		r.Probe("caches-prewarmed-with-many-types")
	}

	cfg := schedConfig(t, 40*nops)
	r.Fault("strategy:" + c09ModeNames[cfg.Mode])
	r.Fault("pool-policy:" + poolPolicyNames[cfg.PoolPolicy[0]])

	// ---- reference: every operation alone on pristine state ------------------
	ref := make([][]c09Res, ntasks)
	est := 0
	for i := range tasks {
		ref[i] = make([]c09Res, len(tasks[i]))
		for j, op := range tasks[i] {
			simhook.ResetAll()
			simhook.SetConfig(simhook.Config{})
			c09Prewarm(warm)
			simhook.SetConfig(cfg)
			res := simhook.Run(1, cfg, func(int) { ref[i][j] = op.exec() })
			est += res.Points
			if op.kind == opJSONMarshalAnyMap {
				r.Probe("anymap-of-fresh-types")
			}
		}
	}
	if v := simhook.TakeViolation(); v != "" {
		r.Fail("pool-monitor", "alone:"+firstWord(v), "while running operations alone: %s", v)
		return
	}
	cfg.EstSteps = est

	// ---- the concurrent phase ---------------------------------------------------
	simhook.ResetAll()
	simhook.SetConfig(simhook.Config{})
	c09Prewarm(warm)
	simhook.SetConfig(cfg)
	simhook.TakeProbes()
	got := make([][]c09Res, ntasks)
	for i := range got {
		got[i] = make([]c09Res, len(tasks[i]))
	}
	res := simhook.Run(ntasks, cfg, func(task int) {
		for j, op := range tasks[task] {
			got[task][j] = op.exec()
			simhook.Yield(simhook.KOp, -1)
		}
	})
	r.Steps += int64(res.Points)
	r.SigAdd(fmt.Sprintf("%x", res.Trace))
	if res.Switches > 0 {
		r.NonTrivial = true
	}
	pr := simhook.TakeProbes()
	for i, v := range pr {
		if v > 0 {
			r.ProbeN(simhook.ProbeNames[i], v)
		}
	}
	r.Event("points=%d switches=%d trace=%x", res.Points, res.Switches, res.Trace)

	if r.WantSample {
		var ts []any
		for i := range tasks {
			var ops []string
			for _, op := range tasks[i] {
				ops = append(ops, op.String())
			}
			ts = append(ts, ops)
		}
		var tn []string
		for _, ty := range pool {
			tn = append(tn, ty.name+" "+ty.rt.String())
		}
		r.Sample = map[string]any{"types": clipStrs(tn, 300), "tasks": ts, "strategy": c09ModeNames[cfg.Mode], "pool_policy": poolPolicyNames[cfg.PoolPolicy[0]],
			"scheduling_points": res.Points, "context_switches": res.Switches, "schedule_hash": fmt.Sprintf("%016x", res.Trace)}
	}

	// ---- oracles ---------------------------------------------------------------------
	if res.Overrun {
		core.Harness("C09 run exceeded %d scheduling points", simhook.MaxPoints)
	}
	for i := 0; i < ntasks; i++ {
		if res.Panics[i] != "" {
			if !core.PanicInLibrary(res.Panics[i]) {
				core.Harness("panic in harness code inside simulated goroutine %d: %s", i, res.Panics[i])
			}
			r.Fail("panic", "task-panic:"+firstLineOf(res.Panics[i]), "simulated goroutine %d panicked outside an operation: %s", i, res.Panics[i])
			return
		}
	}
	if v := simhook.TakeViolation(); v != "" {
		r.Fail("pool-monitor", firstWord(v), "%s", v)
		return
	}
	for i := range tasks {
		for j, op := range tasks[i] {
			g, w := &got[i][j], &ref[i][j]
			if ok, why := sameRes(g, w); !ok {
				r.Fail("result-differs-from-alone", opNames[op.kind], "task %d op %d %s: concurrent run returned something else than the same call running alone: %s", i, j, op, why)
				return
			}
			// result stability: what was returned is still what it was when returned
			if g.out != nil {
				r.Probe("result-stability-checked")
				if !bytes.Equal(g.out, g.snap) {
					r.Fail("result-changed-after-return", opNames[op.kind], "task %d op %d %s: returned bytes changed after the call returned (pooled buffer reused?): now %q, at return %q", i, j, op, clip(g.out, 120), clip(g.snap, 120))
					return
				}
			}
		}
	}
	// steady state: the caches the concurrent phase left behind must serve the
	// same operations, run once more one after the other, exactly like pristine
	// caches do (a lost update may cost a rebuild, never a wrong or half-built codec)
	for i := range tasks {
		for j, op := range tasks[i] {
			var again c09Res
			simhook.Run(1, cfg, func(int) { again = op.exec() })
			r.Probe("steady-state-rechecked")
			if ok, why := sameRes(&again, &ref[i][j]); !ok {
				r.Fail("steady-state-differs-from-alone", opNames[op.kind], "after the concurrent phase, task %d op %d %s run again on the caches it left behind returns something else than on pristine caches: %s", i, j, op, why)
				return
			}
		}
	}
	if v := simhook.TakeViolation(); v != "" {
		r.Fail("pool-monitor", "steady:"+firstWord(v), "%s", v)
		return
	}
	// proto.TypeOf: one Type per Go type within a run
	byType := map[reflect.Type]proto.Type{}
	for i := range tasks {
		for j, op := range tasks[i] {
			if op.kind != opProtoTypeOf || got[i][j].ptype == nil {
				continue
			}
			r.Probe("typeof-identity-checked")
			if prev, ok := byType[op.ty.rt]; ok {
				if !sameIface(prev, got[i][j].ptype) {
					r.Fail("typeof-identity", "proto.TypeOf", "proto.TypeOf(%s) returned two different Type values to concurrent callers", op.ty.name)
					return
				}
			} else {
				byType[op.ty.rt] = got[i][j].ptype
			}
		}
	}
}

func sameIface(a, b proto.Type) (eq bool) {
	defer func() {
		if recover() != nil {
			eq = reflect.DeepEqual(a, b)
		}
	}()
	return a == b
}

func firstWord(s string) string {
	if i := strings.IndexAny(s, ": "); i > 0 {
		return s[:i]
	}
	return s
}

func firstLineOf(s string) string {
	if i := strings.IndexByte(s, '\n'); i > 0 {
		s = s[:i]
	}
	if len(s) > 100 {
		s = s[:100]
	}
	return s
}

func clipStrs(ss []string, n int) []string {
	out := make([]string, len(ss))
	for i, s := range ss {
		if len(s) > n {
			s = s[:n] + "…"
		}
		out[i] = s
	}
	return out
}
