package props

import "regexp"

var numReProps = regexp.MustCompile(`0x[0-9a-f]+|[0-9]+`)
