package props

import (
	"regexp"
	"runtime/debug"
	"strings"

	"verifsim/core"
)

var numReProps = regexp.MustCompile(`0x[0-9a-f]+|[0-9]+`)

// stackOfLibrary returns the library frames of the current (recovered) panic;
// a panic whose innermost frame is harness code is a harness error (exit 2).
func stackOfLibrary() string {
	st := string(debug.Stack())
	if !core.PanicInLibrary(st) {
		core.Harness("panic in harness code: %s", st)
	}
	var keep []string
	for _, l := range strings.Split(st, "\n") {
		if strings.HasPrefix(l, "github.com/segmentio/encoding/") {
			if i := strings.LastIndex(l, "("); i > 0 {
				l = l[:i]
			}
			keep = append(keep, strings.TrimPrefix(l, "github.com/segmentio/encoding/"))
			if len(keep) >= 8 {
				break
			}
		}
	}
	return strings.Join(keep, " <- ")
}

// panicSite turns "msg\nframe <- frame" into a stable key: message with
// numbers masked plus the innermost library function.
func panicSite(pan string) string {
	msg, frames, _ := strings.Cut(pan, "\n")
	first, _, _ := strings.Cut(frames, " <- ")
	if len(msg) > 80 {
		msg = msg[:80]
	}
	return numReProps.ReplaceAllString(msg, "N") + "@" + first
}

func clipStr(s string, n int) string {
	if len(s) > n {
		return s[:n] + "…"
	}
	return s
}
