package props

import (
	"math"
	"reflect"
	"regexp"
	"runtime/debug"
	"strings"

	"verifsim/core"
)

var numReProps = regexp.MustCompile(`0x[0-9a-f]+|[0-9]+`)

// stackOfLibrary returns the library frames of the current (recovered) panic;
// a panic whose innermost frame is harness code is a harness error (exit 2).
func stackOfLibrary() string {
	st := string(debug.Stack())
	if !core.PanicInLibrary(st) {
		core.Harness("panic in harness code: %s", st)
	}
	var keep []string
	for _, l := range strings.Split(st, "\n") {
		if strings.HasPrefix(l, "github.com/segmentio/encoding/") {
			if i := strings.LastIndex(l, "("); i > 0 {
				l = l[:i]
			}
			keep = append(keep, strings.TrimPrefix(l, "github.com/segmentio/encoding/"))
			if len(keep) >= 8 {
				break
			}
		}
	}
	return strings.Join(keep, " <- ")
}

// panicSite turns "msg\nframe <- frame" into a stable key: message with
// numbers masked plus the innermost library function.
func panicSite(pan string) string {
	msg, frames, _ := strings.Cut(pan, "\n")
	first, _, _ := strings.Cut(frames, " <- ")
	if len(msg) > 80 {
		msg = msg[:80]
	}
	return numReProps.ReplaceAllString(msg, "N") + "@" + first
}

func clipStr(s string, n int) string {
	if len(s) > n {
		return s[:n] + "…"
	}
	return s
}

// sameValue is reflect.DeepEqual with floats compared bit for bit (NaN equals
// the same NaN): corrupted inputs legitimately decode to NaN, which DeepEqual
// never finds equal to itself.
func sameValue(a, b any) bool {
	return sameRV(reflect.ValueOf(a), reflect.ValueOf(b), 0)
}

func sameRV(a, b reflect.Value, depth int) bool {
	if a.IsValid() != b.IsValid() {
		return false
	}
	if !a.IsValid() {
		return true
	}
	if a.Type() != b.Type() {
		return false
	}
	if depth > 64 {
		return reflect.DeepEqual(a.Interface(), b.Interface())
	}
	switch a.Kind() {
	case reflect.Float32, reflect.Float64:
		return math.Float64bits(a.Float()) == math.Float64bits(b.Float())
	case reflect.Complex64, reflect.Complex128:
		return a.Complex() == b.Complex()
	case reflect.Ptr, reflect.Interface:
		if a.IsNil() || b.IsNil() {
			return a.IsNil() == b.IsNil()
		}
		return sameRV(a.Elem(), b.Elem(), depth+1)
	case reflect.Struct:
		for i := 0; i < a.NumField(); i++ {
			if !sameRV(a.Field(i), b.Field(i), depth+1) {
				return false
			}
		}
		return true
	case reflect.Slice:
		if a.IsNil() != b.IsNil() || a.Len() != b.Len() {
			return false
		}
		fallthrough
	case reflect.Array:
		for i := 0; i < a.Len(); i++ {
			if !sameRV(a.Index(i), b.Index(i), depth+1) {
				return false
			}
		}
		return true
	case reflect.Map:
		if a.IsNil() != b.IsNil() || a.Len() != b.Len() {
			return false
		}
		it := a.MapRange()
		for it.Next() {
			bv := b.MapIndex(it.Key())
			if !bv.IsValid() || !sameRV(it.Value(), bv, depth+1) {
				return false
			}
		}
		return true
	case reflect.String:
		return a.String() == b.String()
	case reflect.Bool:
		return a.Bool() == b.Bool()
	case reflect.Int, reflect.Int8, reflect.Int16, reflect.Int32, reflect.Int64:
		return a.Int() == b.Int()
	case reflect.Uint, reflect.Uint8, reflect.Uint16, reflect.Uint32, reflect.Uint64, reflect.Uintptr:
		return a.Uint() == b.Uint()
	}
	if a.CanInterface() && b.CanInterface() {
		return reflect.DeepEqual(a.Interface(), b.Interface())
	}
	return true
}
