package props

import (
	"encoding/hex"
	"reflect"
	"testing"

	"verifsim/gen"

	"github.com/segmentio/encoding/proto"
)

func TestDbgC07(t *testing.T) {
	rt := gen.Shape(gen.Proto, 0, false, false)
	t.Logf("%v", rt)
	for _, h := range []string{"18010a002a00", "18010a0218002a00"} {
		b, _ := hex.DecodeString(h)
		x := reflect.New(rt)
		err := proto.Unmarshal(b, x.Interface())
		t.Logf("%s -> %+v err=%v", h, x.Elem().Interface(), err)
	}
}
