package props

import (
	"bytes"
	stdjson "encoding/json"
	"errors"
	"fmt"
	"io"
	"reflect"
	"runtime"
	"sort"
	"strconv"
	"strings"

	"verifsim/core"
	"verifsim/gen"
	"verifsim/ref"
	"verifsim/simio"
	"verifsim/tape"

	"github.com/segmentio/encoding/thrift"
)

// C08 — thrift decoding is total, bounded and skips unknown fields.
//
// Medium faults (tear at every offset, rot, inflated and negative lengths and
// counts, foreign fields of every thrift type at every field boundary of every
// struct level, trailing bytes, removed required fields, changed wire types)
// plus a real stream seam: every thrift Reader pulls from an io.Reader, which
// the simulator scripts (chunking, EOF or error at every offset, with and
// without io.ByteReader).

func init() {
	core.Register(&core.Property{
		ID: "C08", Level: "fault_enumeration", Engine: "wirefault+simio",
		Quick: 5000, Thorough: 300000,
		Run:        runC08,
		Rule:       "one run = one generated (type, value, protocol in {binary strict, binary non-strict, compact}) whose encoding E decodes; evaluations = individual faulted decodes: EOF at every offset of E through bytes.Reader and through the simulated reader (both io.ByteReader flavours), a reader error at every offset (all offsets up to 512 bytes, sampled beyond), chunk schedules, 6 byte substitutions per offset, every length / element count set to negative, oversized and out-of-range values, foreign fields of 12 shapes x 4 undeclared ids at every field boundary of every struct level, trailing bytes, each required field removed, each declared top-level field given another wire type, direct Reader method calls on arbitrary bytes. non-trivial = E has at least 2 bytes; distinct = distinct hash of (type, protocol, E)",
		FaultKinds: []string{"eof-at-offset(bytes.Reader)", "eof-at-offset(simulated reader)", "eof-at-offset(simulated ByteReader)", "reader-error-at-offset", "chunked-delivery", "rot(byte-substitution)", "size-negative", "size-oversized", "size-out-of-range", "foreign-field", "foreign-field-nested-level", "foreign-field-with-corrupted-size", "trailing-bytes", "required-field-removed", "failed-decode-then-decode", "long-lived-decoder", "message-written-from-the-tags", "eof-right-behind-a-foreign-field", "destination-emptied-and-reused", "large-binary(>64KiB)", "nested-required-field-removed", "required-field-removed-while-another-is-repeated", "nested-wire-type-changed(strict)", "wire-type-changed(strict)", "wire-type-changed(non-strict)", "element-type-changed(strict)", "reader-method-on-arbitrary-bytes", "scaling-probe(n vs 8n elements)", "inflated-count-on-a-long-collection", "protocol:binary", "protocol:binary-nonstrict", "protocol:compact", "cut-inside-length", "data+err"},
		ProbeNames: []string{"messages", "decoder-reset-after-failure", "strict-after-reset-checked", "precondition-failed(skipped)", "struct-levels>1", "E>=128B", "required-fields", "alloc-precise-samples", "eof-k0", "sites", "reference-parse-failed(structural operators skipped)"},
		Real:       []string{"thrift.Unmarshal, thrift.Decoder (strict and non-strict), binary and compact Readers compiled from /repo's working tree with sync and sync/atomic redirected to the shim (deterministic simulated sync.Pool, pristine library state before every run)"},
		Model:      []string{"storage/transport medium (fault operators over the encoded bytes)", "io.Reader (simio.Reader with and without io.ByteReader)", "reference thrift parser/serialiser for both protocols (verifsim/ref) used to locate sizes and struct levels and to build foreign fields, removed fields and retyped fields"},
		Assumptions: []string{
			"allocation bound: 1 MiB + 1024 x bytes actually available, measured with runtime/metrics on every faulted decode and runtime.ReadMemStats on a sample",
			"the binary protocol of this library carries the library's own thrift.Type codes; the reference codec uses the public thrift.Type values (conformance to the Apache encoding is C13, not claimed)",
			"for rotted input and reader errors the statement demands no panic and bounded memory only",
			"undeclared ids are chosen outside the set of ids declared anywhere in the target type",
		},
	})
}

type c08Scenario struct {
	Type   string `json:"type,omitempty"`
	Shape  int    `json:"shape,omitempty"`
	Sparse bool   `json:"sparse,omitempty"`
	Proto  int    `json:"proto"` // 0 binary strict, 1 binary non-strict, 2 compact
	Input  []byte `json:"input"`
	Base   []byte `json:"base,omitempty"`
	// Prelude, when present, is decoded first and its outcome ignored (history:
	// a failed decode of the same type before the one that is judged).
	Prelude []byte `json:"prelude,omitempty"`
	// Expect: "" (no panic / bounded only), "same-as-base", "error", "unexpected-eof", "missing-field", "type-mismatch(strict)"
	Expect string `json:"expect,omitempty"`
}

var thriftProtos = []thrift.Protocol{&thrift.BinaryProtocol{}, &thrift.BinaryProtocol{NonStrict: true}, &thrift.CompactProtocol{}}
var thriftProtoNames = []string{"binary", "binary-nonstrict", "compact"}

type c08Ctx struct {
	r     *core.Run
	ty    *simType
	pi    int
	calls int
}

type c08Mode struct {
	viaSim     bool
	byteReader bool
	cut        int   // simulated reader: bytes delivered; -1 = all
	final      error // simulated reader terminal condition
	fwd        bool
	script     []int
	tail       int
	strict     bool
	decoder    bool // use NewDecoder even without the simulated reader
}

func (c *c08Ctx) scenario(in, base []byte, expect string) *c08Scenario {
	sc := &c08Scenario{Input: append([]byte(nil), in...), Base: base, Proto: c.pi, Expect: expect}
	var shape int
	var sp bool
	if n, _ := fmt.Sscanf(c.ty.name, "thrift-shape-%d/%t", &shape, &sp); n == 2 {
		sc.Shape, sc.Sparse = shape, sp
	} else {
		sc.Type = c.ty.name
	}
	return sc
}

var c08Arena []byte

// decode runs one decode with the no-panic and allocation monitors.
func (c *c08Ctx) decode(in []byte, m c08Mode, op string) (x reflect.Value, err error, ok bool) {
	r := c.r
	r.Evaluations++
	c.calls++
	x = reflect.New(c.ty.rt)
	p := thriftProtos[c.pi]
	avail := len(in)
	var rd io.Reader
	if m.viaSim {
		cut := m.cut
		if cut < 0 || cut > len(in) {
			cut = len(in)
		}
		avail = cut
		final := m.final
		if final == nil {
			final = io.EOF
		}
		sr := &simio.Reader{Data: in, Cut: cut, Final: final, FinalWithData: m.fwd, Tail: m.tail}
		for _, n := range m.script {
			sr.Script = append(sr.Script, simio.Event{N: n})
		}
		if sr.Tail < 1 {
			sr.Tail = 1 << 20
		}
		if m.byteReader {
			rd = simio.ByteReader{Reader: sr}
		} else {
			rd = sr
		}
	}
	if rd == nil {
		// the caller's one receive buffer: same address, new content every time
		if cap(c08Arena) < len(in)+8 {
			c08Arena = make([]byte, 2*len(in)+64)
		}
		off := (c.calls & 1) * 3
		buf := c08Arena[off : off+len(in) : off+len(in)]
		copy(buf, in)
		in = buf
	}
	precise := c.calls%97 == 0
	var before uint64
	var ms runtime.MemStats
	if precise {
		runtime.ReadMemStats(&ms)
		before = ms.TotalAlloc
		r.Probe("alloc-precise-samples")
	} else {
		before = heapAllocs()
	}
	var pan string
	func() {
		defer func() {
			if e := recover(); e != nil {
				pan = fmt.Sprintf("%v\n%s", e, stackOfLibrary())
			}
		}()
		switch {
		case rd != nil:
			d := thrift.NewDecoder(p.NewReader(rd))
			d.SetStrict(m.strict)
			err = d.Decode(x.Interface())
		case m.decoder:
			d := thrift.NewDecoder(p.NewReader(bytes.NewReader(in)))
			d.SetStrict(m.strict)
			err = d.Decode(x.Interface())
		default:
			err = thrift.Unmarshal(p, in, x.Interface())
		}
	}()
	var after uint64
	if precise {
		runtime.ReadMemStats(&ms)
		after = ms.TotalAlloc
	} else {
		after = heapAllocs()
	}
	if pan != "" {
		r.Fail("panic", "decode-panic:"+panicSite(pan), "thrift decode (%s, %s) panicked on %s input (%d bytes, type %s): %s\ninput=%x", thriftProtoNames[c.pi], modeName(m), op, len(in), c.ty.name, pan, clip(in, 200))
		r.ScenarioOut = c.scenario(in, nil, "")
		return x, err, false
	}
	if d := after - before; after > before && d > 1<<20+1024*uint64(avail) {
		r.Fail("allocation", "alloc-unbounded:"+op, "thrift decode (%s, %s) allocated %d bytes for a %s input of which %d bytes were available (bound 1 MiB + 1024 x available) (type %s)\ninput=%x", thriftProtoNames[c.pi], modeName(m), d, op, avail, c.ty.name, clip(in, 200))
		r.ScenarioOut = c.scenario(in, nil, "")
		return x, err, false
	}
	return x, err, true
}

// longLived drives one Decoder through a stream of three copies of e (chunked
// by the simulated reader), then a clean end of input; then Resets it, after a
// decode that failed half-way, onto a fresh reader.
func (c *c08Ctx) longLived(e []byte, base reflect.Value, p thrift.Protocol, retyped []byte) (ok bool) {
	r := c.r
	r.Fault("long-lived-decoder")
	var pan string
	defer func() {
		if e := recover(); e != nil {
			pan = fmt.Sprintf("%v\n%s", e, stackOfLibrary())
			r.Fail("panic", "decode-panic:"+panicSite(pan), "a long-lived thrift Decoder (%s) panicked (type %s): %s", thriftProtoNames[c.pi], c.ty.name, pan)
			ok = false
		}
	}()
	if base.IsValid() && !c.longLivedStream(e, base, p) {
		return false
	}
	return c.strictAfterReset(e, p, retyped)
}

func (c *c08Ctx) longLivedStream(e []byte, base reflect.Value, p thrift.Protocol) bool {
	r, t := c.r, c.r.T
	stream := append(append(append([]byte(nil), e...), e...), e...)
	sr := &simio.Reader{Data: stream, Cut: len(stream), Final: io.EOF, Tail: 1 + t.Intn(len(e)+2)}
	for i, n := 0, t.Intn(4); i < n; i++ {
		sr.Script = append(sr.Script, simio.Event{N: t.Intn(len(e) + 2)})
	}
	var rd io.Reader = sr
	if t.Bool() {
		rd = simio.ByteReader{Reader: sr}
	}
	d := thrift.NewDecoder(p.NewReader(rd))
	for i := 0; i < 3; i++ {
		x := reflect.New(c.ty.rt)
		if err := d.Decode(x.Interface()); err != nil {
			r.Fail("stream", "stream-value-rejected", "value %d of a stream of three copies of one valid encoding through one Decoder: %v (%s, type %s)\ninput=%x", i+1, err, thriftProtoNames[c.pi], c.ty.name, clip(e, 300))
			r.ScenarioOut = c.scenario(e, e, "")
			return false
		}
		if !reflect.DeepEqual(x.Interface(), base.Interface()) {
			r.Fail("stream", "stream-value-differs", "value %d of a stream of three copies of one valid encoding through one Decoder differs from the value Unmarshal yields (%s, type %s)\ninput=%x", i+1, thriftProtoNames[c.pi], c.ty.name, clip(e, 300))
			r.ScenarioOut = c.scenario(e, e, "")
			return false
		}
	}
	if len(e) > 0 {
		x := reflect.New(c.ty.rt)
		if err := d.Decode(x.Interface()); err == nil {
			r.Fail("stream", "value-after-end-of-stream", "a fourth Decode on a stream of three values returned a value (%s, type %s)", thriftProtoNames[c.pi], c.ty.name)
			r.ScenarioOut = c.scenario(e, e, "")
			return false
		}
	}
	// a decode that fails half-way, then Reset onto a fresh reader
	if len(e) > 1 {
		cut := 1 + t.Intn(len(e)-1)
		d.SetStrict(true)
		d.Reset(p.NewReader(bytes.NewReader(e[:cut])))
		x := reflect.New(c.ty.rt)
		if err := d.Decode(x.Interface()); err == nil {
			r.Probe("torn-input-accepted-as-value")
		}
		d.Reset(p.NewReader(bytes.NewReader(e)))
		x = reflect.New(c.ty.rt)
		if err := d.Decode(x.Interface()); err != nil || !reflect.DeepEqual(x.Interface(), base.Interface()) {
			r.Fail("stream", "reset-after-failure", "a Decoder that was Reset onto a fresh reader after a decode that failed at byte %d returns err=%v / another value than Unmarshal for a valid encoding (%s, type %s)\ninput=%x", cut, err, thriftProtoNames[c.pi], c.ty.name, clip(e, 300))
			r.ScenarioOut = c.scenario(e, e, "")
			return false
		}
		r.Probe("decoder-reset-after-failure")
	}
	return true
}

// strictAfterReset: strict mode, once set, is a property of the Decoder: Reset
// onto another reader does not turn it off.
func (c *c08Ctx) strictAfterReset(e []byte, p thrift.Protocol, retyped []byte) bool {
	r := c.r
	if retyped != nil {
		d := thrift.NewDecoder(p.NewReader(bytes.NewReader(e)))
		d.SetStrict(true)
		d.Reset(p.NewReader(bytes.NewReader(retyped)))
		x := reflect.New(c.ty.rt)
		err := d.Decode(x.Interface())
		var tm *thrift.TypeMismatch
		if !errors.As(err, &tm) {
			r.Fail("type-mismatch", "type-mismatch-not-reported-after-reset", "SetStrict(true), then Reset onto a reader whose input gives a declared field another wire type: Decode returned %v instead of *thrift.TypeMismatch (%s, type %s)\ninput=%x", err, thriftProtoNames[c.pi], c.ty.name, clip(retyped, 300))
			r.ScenarioOut = c.scenario(retyped, e, "type-mismatch(strict-after-reset)")
			return false
		}
		r.Probe("strict-after-reset-checked")
	}
	return true
}

func modeName(m c08Mode) string {
	s := "Unmarshal"
	if m.viaSim {
		s = "Decoder over simulated reader"
		if m.byteReader {
			s = "Decoder over simulated ByteReader"
		}
	} else if m.decoder {
		s = "Decoder over bytes.Reader"
	}
	if m.strict {
		s += ", strict"
	}
	return s
}

func c08Type(t *tape.Tape) *simType {
	if t.Chance(1, 4) {
		z := zooFor(gen.Thrift)
		return z[t.Intn(len(z))]
	}
	shape := t.Intn(gen.ShapeSpace)
	sparse := t.Chance(1, 2)
	rt := gen.Shape(gen.Thrift, shape, sparse, false)
	return &simType{codec: gen.Thrift, rt: rt, name: fmt.Sprintf("thrift-shape-%d/%v", shape, sparse), flags: typeFlags(rt)}
}

func thriftTypeOfScenario(sc *c08Scenario) *simType {
	if sc.Type != "" {
		for _, z := range zooFor(gen.Thrift) {
			if z.name == sc.Type {
				return z
			}
		}
		core.Harness("scenario names unknown thrift zoo type %q", sc.Type)
	}
	rt := gen.Shape(gen.Thrift, sc.Shape, sc.Sparse, false)
	return &simType{codec: gen.Thrift, rt: rt, name: fmt.Sprintf("thrift-shape-%d/%v", sc.Shape, sc.Sparse), flags: typeFlags(rt)}
}

// thriftIDs collects every declared field id of every struct reachable from rt,
// and the (id, required) pairs of the top-level struct.
func thriftIDs(rt reflect.Type) (all map[int]bool, top map[int]bool, required []int) {
	all, top = map[int]bool{}, map[int]bool{}
	seen := map[reflect.Type]bool{}
	var walk func(t reflect.Type, level int)
	walk = func(t reflect.Type, level int) {
		for t.Kind() == reflect.Ptr {
			t = t.Elem()
		}
		if seen[t] {
			return
		}
		seen[t] = true
		switch t.Kind() {
		case reflect.Struct:
			for _, f := range thriftFieldsOf(t) {
				tag := f.Tag.Get("thrift")
				parts := strings.Split(tag, ",")
				if id, err := strconv.Atoi(parts[0]); err == nil {
					all[id] = true
					if level == 0 {
						top[id] = true
						for _, o := range parts[1:] {
							if o == "required" {
								required = append(required, id)
							}
						}
					}
				}
				walk(f.Type, level+1)
			}
		case reflect.Slice, reflect.Array:
			walk(t.Elem(), level+1)
		case reflect.Map:
			walk(t.Key(), level+1)
			walk(t.Elem(), level+1)
		}
	}
	walk(rt, 0)
	return
}

// thriftFieldPaths is thriftFieldsOf with the index path of every field from the
// root struct.
func thriftFieldPaths(st reflect.Type, prefix []int) (fs []reflect.StructField, paths [][]int) {
	for i := 0; i < st.NumField(); i++ {
		f := st.Field(i)
		path := append(append([]int(nil), prefix...), i)
		if f.Anonymous {
			ft := f.Type
			if ft.Kind() == reflect.Ptr {
				continue // would need allocation through an embedded pointer: left out here
			}
			if ft.Kind() == reflect.Struct {
				a, b := thriftFieldPaths(ft, path)
				fs, paths = append(fs, a...), append(paths, b...)
				continue
			}
		}
		if f.PkgPath != "" || f.Tag.Get("thrift") == "" {
			continue
		}
		fs, paths = append(fs, f), append(paths, path)
	}
	return
}

// c08Synth builds a message for a struct type from its tags (scalar and string
// fields only, each with a distinct sample value), decodes it, and looks each value
// up in the field the tag belongs to.
func c08Synth(r *core.Run, ty *simType, pi int) bool {
	fs, paths := thriftFieldPaths(ty.rt, nil)
	var tree ref.TVal
	tree.Type = ref.TStruct
	type want struct {
		path []int
		i    int64
		s    string
		kind reflect.Kind
	}
	var wants []want
	for k, f := range fs {
		parts := strings.Split(f.Tag.Get("thrift"), ",")
		id, err := strconv.Atoi(parts[0])
		if err != nil || f.Type.Kind() == reflect.Ptr {
			continue
		}
		w := want{path: paths[k], kind: f.Type.Kind()}
		var v ref.TVal
		isEnum := false
		for _, o := range parts[1:] {
			isEnum = isEnum || o == "enum"
		}
		if isEnum {
			// how an enum of another width than int32 travels is the library's own
			// affair (C13): left out of the sample
			continue
		}
		switch f.Type.Kind() {
		case reflect.Bool:
			v, w.i = ref.TVal{Type: ref.TFalse, I: 1}, 1
		case reflect.Int8:
			v, w.i = ref.TVal{Type: ref.TI8, I: int64(3 + k%50)}, int64(3+k%50)
		case reflect.Int16:
			v, w.i = ref.TVal{Type: ref.TI16, I: int64(300 + k)}, int64(300+k)
		case reflect.Int32:
			v, w.i = ref.TVal{Type: ref.TI32, I: int64(70000 + k)}, int64(70000+k)
		case reflect.Int, reflect.Int64:
			v, w.i = ref.TVal{Type: ref.TI64, I: int64(1)<<40 + int64(k)}, int64(1)<<40+int64(k)
		case reflect.String:
			w.s = fmt.Sprintf("field-%d", id)
			v = ref.TVal{Type: ref.TBinary, Bin: []byte(w.s)}
		default:
			continue
		}
		tree.Fields = append(tree.Fields, ref.TField{ID: int16(id), Val: v})
		wants = append(wants, w)
	}
	if len(wants) == 0 {
		return true
	}
	sort.SliceStable(tree.Fields, func(i, j int) bool { return tree.Fields[i].ID < tree.Fields[j].ID })
	compact := pi == 2
	m := ref.ThriftAppend(nil, &tree, compact, !compact)
	c := &c08Ctx{r: r, ty: ty, pi: pi}
	warmThrift(thriftProtos[pi], ty.rt)
	x, err, ok := c.decode(m, c08Mode{}, "written-from-the-tags")
	if !ok {
		return false
	}
	r.Fault("message-written-from-the-tags")
	var mf *thrift.MissingField
	if errors.As(err, &mf) {
		return true // a required field of a kind the sample values do not cover
	}
	if err != nil {
		r.Fail("synth", "message-from-tags-rejected", "a message carrying a sample value for every scalar / string field the type declares is rejected: %v (%s, type %s)\ninput=%x", err, thriftProtoNames[pi], ty.name, clip(m, 300))
		r.ScenarioOut = c.scenario(m, nil, "")
		return false
	}
	for _, w := range wants {
		fv := x.Elem().FieldByIndex(w.path)
		bad := false
		switch w.kind {
		case reflect.Bool:
			bad = !fv.Bool()
		case reflect.String:
			bad = fv.String() != w.s
		default:
			bad = fv.Int() != w.i
		}
		if bad {
			r.Fail("synth", "value-in-the-wrong-field", "a message carrying a distinct sample value for every scalar / string field: the field at index path %v (%s) holds %v, expected %v%s (%s, type %s)\ninput=%x", w.path, w.kind, fv.Interface(), w.i, w.s, thriftProtoNames[pi], ty.name, clip(m, 300))
			return false
		}
	}
	return true
}

// thriftTypeOfGo maps a Go field type to the thrift type of its wire form (scalars,
// strings and structs only: enough to complete a message with zero values).
func thriftTypeOfGo(t reflect.Type) (int8, bool) {
	for t.Kind() == reflect.Ptr {
		t = t.Elem()
	}
	switch t.Kind() {
	case reflect.Bool:
		return ref.TFalse, true
	case reflect.Int8:
		return ref.TI8, true
	case reflect.Int16:
		return ref.TI16, true
	case reflect.Int32:
		return ref.TI32, true
	case reflect.Int, reflect.Int64:
		return ref.TI64, true
	case reflect.Float64:
		return ref.TDouble, true
	case reflect.String:
		return ref.TBinary, true
	case reflect.Struct:
		return ref.TStruct, true
	case reflect.Slice:
		if t.Elem().Kind() == reflect.Uint8 {
			return ref.TBinary, true
		}
	}
	return 0, false
}

// thriftFieldsOf lists the tagged fields of a struct type, those promoted from
// embedded structs (by value or by pointer, exported type name or not) included:
// an embedded struct is not a level of its own on the wire.
func thriftFieldsOf(st reflect.Type) []reflect.StructField {
	var out []reflect.StructField
	for i := 0; i < st.NumField(); i++ {
		f := st.Field(i)
		if f.Anonymous {
			ft := f.Type
			for ft.Kind() == reflect.Ptr {
				ft = ft.Elem()
			}
			if ft.Kind() == reflect.Struct {
				out = append(out, thriftFieldsOf(ft)...)
				continue
			}
		}
		if f.PkgPath != "" || f.Tag.Get("thrift") == "" {
			continue
		}
		out = append(out, f)
	}
	return out
}

// typedLevel pairs a struct level of a parsed encoding with the Go struct type
// it is decoded into.
type typedLevel struct {
	lv *ref.TVal
	st reflect.Type
}

func typedLevels(tv *ref.TVal, rt reflect.Type, out *[]typedLevel, depth int) {
	for rt.Kind() == reflect.Ptr {
		rt = rt.Elem()
	}
	if depth > 12 {
		return
	}
	switch tv.Type {
	case ref.TStruct:
		if rt.Kind() != reflect.Struct {
			return
		}
		*out = append(*out, typedLevel{tv, rt})
		byID := map[int]reflect.Type{}
		for _, f := range thriftFieldsOf(rt) {
			parts := strings.Split(f.Tag.Get("thrift"), ",")
			if id, err := strconv.Atoi(parts[0]); err == nil {
				byID[id] = f.Type
			}
		}
		for i := range tv.Fields {
			if ft := byID[int(tv.Fields[i].ID)]; ft != nil {
				typedLevels(&tv.Fields[i].Val, ft, out, depth+1)
			}
		}
	case ref.TList, ref.TSet:
		var et reflect.Type
		switch rt.Kind() {
		case reflect.Slice, reflect.Array:
			et = rt.Elem()
		case reflect.Map:
			et = rt.Key()
		default:
			return
		}
		for i := range tv.Elems {
			typedLevels(&tv.Elems[i], et, out, depth+1)
		}
	case ref.TMap:
		if rt.Kind() != reflect.Map {
			return
		}
		for i := range tv.Keys {
			typedLevels(&tv.Keys[i], rt.Key(), out, depth+1)
			typedLevels(&tv.Vals[i], rt.Elem(), out, depth+1)
		}
	}
}

// thriftLevelIDs returns the declared and the required field ids of one struct type.
func thriftLevelIDs(st reflect.Type) (ids, req map[int]bool) {
	ids, req = map[int]bool{}, map[int]bool{}
	for _, f := range thriftFieldsOf(st) {
		parts := strings.Split(f.Tag.Get("thrift"), ",")
		id, err := strconv.Atoi(parts[0])
		if err != nil {
			continue
		}
		ids[id] = true
		for _, o := range parts[1:] {
			if o == "required" {
				req[id] = true
			}
		}
	}
	return
}

func thriftTopType(rt reflect.Type) int8 {
	for rt.Kind() == reflect.Ptr {
		rt = rt.Elem()
	}
	return int8(thrift.TypeOf(rt))
}

// foreign values of every thrift type and nesting.
func foreignVals() []ref.TVal {
	i32 := ref.TVal{Type: ref.TI32, I: -77}
	str := ref.TVal{Type: ref.TBinary, Bin: []byte("newer-schema")}
	inner := ref.TVal{Type: ref.TStruct, Fields: []ref.TField{{ID: 1, Val: i32}, {ID: 9, Val: str}, {ID: 300, Val: ref.TVal{Type: ref.TFalse, I: 1}}}}
	return []ref.TVal{
		{Type: ref.TFalse, I: 1},
		{Type: ref.TFalse, I: 0},
		{Type: ref.TI8, I: -3},
		{Type: ref.TI16, I: 300},
		i32,
		{Type: ref.TI64, I: 1 << 40},
		{Type: ref.TDouble, Raw8: []byte{0x40, 0x09, 0x21, 0xfb, 0x54, 0x44, 0x2d, 0x18}},
		str,
		{Type: ref.TBinary, Bin: []byte{}},
		{Type: ref.TList, Elem: ref.TStruct, Elems: []ref.TVal{inner, inner}},
		{Type: ref.TSet, Elem: ref.TBinary, Elems: []ref.TVal{str}},
		{Type: ref.TMap, Key: ref.TI32, Val: ref.TList, Keys: []ref.TVal{i32}, Vals: []ref.TVal{{Type: ref.TList, Elem: ref.TI64, Elems: []ref.TVal{{Type: ref.TI64, I: 5}, {Type: ref.TI64, I: -5}}}}},
		inner,
		{Type: ref.TList, Elem: ref.TFalse, Elems: boolElems(20)},
		{Type: ref.TMap},
	}
}

func zeroOf(t int8) ref.TVal {
	switch t {
	case ref.TDouble:
		return ref.TVal{Type: t, Raw8: make([]byte, 8)}
	case ref.TBinary:
		return ref.TVal{Type: t, Bin: []byte("x")}
	case ref.TStruct:
		return ref.TVal{Type: t}
	}
	return ref.TVal{Type: t}
}

func boolElems(n int) []ref.TVal {
	out := make([]ref.TVal, n)
	for i := range out {
		out[i] = ref.TVal{Type: ref.TFalse, I: int64(i & 1)}
	}
	return out
}

func isEOFClass(err error) bool {
	return errors.Is(err, io.EOF) || errors.Is(err, io.ErrUnexpectedEOF)
}

func runC08(r *core.Run) {
	resetLibrary()
	t := r.T
	if r.Scenario != nil {
		c08RunScenario(r)
		return
	}
	if t.Chance(1, 60) {
		if !c08Scaling(r) {
			return
		}
	}
	if t.Chance(1, 50) {
		if !c08LargeBinary(r) {
			return
		}
	}
	ty := c08Type(t)
	pi := t.Intn(3)
	compact := pi == 2
	vg := &gen.Values{T: t, C: gen.Thrift, MaxMap: 3, MaxLen: 4}
	if t.Chance(1, 6) {
		vg.MaxLen = 20
	}
	v := vg.New(ty.rt)
	if u, ok := v.Interface().(*TUnion); ok {
		// a union carries exactly one member
		full := *u
		*u = TUnion{}
		switch t.Intn(4) {
		case 0:
			u.A = true
		case 1:
			u.B = full.B | 1
		case 2:
			u.C = full.C + "x"
		default:
			u.D = TInner{A: true, B: full.D.B, C: full.D.C}
		}
	}
	p := thriftProtos[pi]
	// a message written from the type's own tags, without the library's encoder: every
	// scalar / string field set to a sample value must arrive in that field
	if ty.rt.Kind() == reflect.Struct && ty.rt != reflect.TypeOf(TUnion{}) && t.Chance(1, 6) {
		if !c08Synth(r, ty, pi) {
			return
		}
	}
	e, err := thriftMarshalNoPanic(p, v.Elem().Interface())
	maxE := 2 << 10
	if r.Tier == "thorough" {
		maxE = 16 << 10
	}
	if err != nil || len(e) > maxE {
		r.Probe("precondition-failed(skipped)")
		return
	}
	c := &c08Ctx{r: r, ty: ty, pi: pi}
	warmThrift(p, ty.rt)
	base, err, ok := c.decode(e, c08Mode{}, "valid")
	if !ok {
		return
	}
	if err != nil {
		r.Probe("precondition-failed(skipped)")
		return
	}
	r.Probe("messages")
	r.Fault("protocol:" + thriftProtoNames[pi])
	r.SigAdd(ty.name)
	r.SigAdd(thriftProtoNames[pi])
	r.SigAddBytes(e)
	if len(e) >= 2 {
		r.NonTrivial = true
	}
	if len(e) >= 128 {
		r.Probe("E>=128B")
	}
	if r.WantSample {
		r.Sample = map[string]any{"type": clipStr(ty.name+" "+ty.rt.String(), 400), "protocol": thriftProtoNames[pi], "encoding_hex": fmt.Sprintf("%x", clip(e, 80)), "encoding_len": len(e)}
	}
	fail := func(class, key string, in []byte, expect string, format string, a ...any) {
		r.Fail(class, key, format, a...)
		r.ScenarioOut = c.scenario(in, e, expect)
	}
	var retyped []byte // a copy of E in which a declared top-level field has another wire type
	sameAsBase := func(x reflect.Value) bool { return reflect.DeepEqual(x.Interface(), base.Interface()) }

	// reference parse (sites, levels)
	topT := thriftTopType(ty.rt)
	// the binary protocol of this library writes STOP as a full field header
	// (type 0, id 0: three bytes); accept the one-byte form of the specification too
	stop3 := false
	tree, sites, perr := ref.ThriftParse(e, topT, compact, false)
	if perr != nil && !compact {
		stop3 = true
		tree, sites, perr = ref.ThriftParse(e, topT, compact, true)
	}
	if perr == nil {
		if !bytes.Equal(ref.ThriftAppend(nil, &tree, compact, stop3), e) {
			perr = errors.New("reference serialiser does not reproduce E")
		}
	}
	if perr != nil {
		r.Probe("reference-parse-failed(structural operators skipped)")
	}
	r.ProbeN("sites", int64(len(sites)))
	inLen := map[int]bool{}
	for _, s := range sites {
		for k := s.Off + 1; k < s.Off+s.N; k++ {
			inLen[k] = true
		}
	}

	// A. chunked delivery must not change the value
	for i := 0; i < 6; i++ {
		rd := &simio.Reader{}
		c11Script(r, rd, t.Pick(1, 3, 3, 1, 1, 2), len(e))
		var script []int
		for _, ev := range rd.Script {
			script = append(script, ev.N)
		}
		m := c08Mode{viaSim: true, byteReader: i%2 == 1, cut: -1, script: script, tail: rd.Tail, fwd: t.Bool()}
		x, err, ok := c.decode(e, m, "chunked")
		if !ok {
			return
		}
		r.Fault("chunked-delivery")
		if err != nil || !sameAsBase(x) {
			fail("chunking-changes-result", "chunking-changes-result", e, "same-as-base", "delivering the same bytes in chunks (%s, script %v…, tail %d) gives err=%v / a different value than a single read (type %s, %s)\ninput=%x", modeName(m), head(script, 8), rd.Tail, err, ty.name, thriftProtoNames[pi], clip(e, 200))
			return
		}
	}

	// B. tear: EOF at every offset
	for k := 0; k < len(e); k++ {
		var m c08Mode
		switch k % 3 {
		case 0:
			r.Fault("eof-at-offset(bytes.Reader)")
		case 1:
			m = c08Mode{viaSim: true, cut: k, tail: 1 + k%5, fwd: k%2 == 0}
			r.Fault("eof-at-offset(simulated reader)")
		default:
			m = c08Mode{viaSim: true, byteReader: true, cut: k, tail: 1 + k%7}
			r.Fault("eof-at-offset(simulated ByteReader)")
		}
		in := e[:k]
		if m.viaSim {
			in = e
		}
		_, err, ok := c.decode(in, m, "torn")
		if !ok {
			return
		}
		if inLen[k] {
			r.Fault("cut-inside-length")
		}
		if k == 0 {
			r.Probe("eof-k0")
			if err == nil || !isEOFClass(err) {
				fail("eof-class", "empty-input-not-eof", e[:0], "unexpected-eof", "empty input (%s): expected an EOF-class error, got %v", modeName(m), err)
				return
			}
			continue
		}
		if err == nil {
			fail("eof-class", "truncated-accepted", e[:k], "unexpected-eof", "input truncated at offset %d of %d (%s, %s) was accepted without error (type %s)\ninput=%x", k, len(e), thriftProtoNames[pi], modeName(m), ty.name, clip(e[:k], 200))
			return
		}
		if err == io.EOF || !errors.Is(err, io.ErrUnexpectedEOF) {
			key := "truncated-not-unexpected-eof"
			if err == io.EOF {
				key = "truncated-plain-eof"
			}
			fail("eof-class", key, e[:k], "unexpected-eof", "input truncated at offset %d of %d (%s, %s): expected an unexpected-EOF class error, got %T %q (type %s)\ninput=%x", k, len(e), thriftProtoNames[pi], modeName(m), err, err, ty.name, clip(e[:k], 200))
			return
		}
	}

	// C. reader error at every offset
	step := 1
	if len(e) > 512 {
		step = len(e)/512 + 1
	}
	for k := t.Intn(step); k < len(e); k += step {
		m := c08Mode{viaSim: true, byteReader: k%2 == 1, cut: k, final: simio.ErrInjected, fwd: k%3 == 0, tail: 1 + k%9}
		if m.fwd && k > 0 {
			r.Fault("data+err")
		}
		_, err, ok := c.decode(e, m, "reader-error")
		if !ok {
			return
		}
		r.Fault("reader-error-at-offset")
		if err == nil {
			fail("reader-error-swallowed", "reader-error-swallowed", e[:k], "error", "the reader failed at offset %d of %d (%s) but Decode returned no error (type %s)", k, len(e), modeName(m), ty.name)
			return
		}
	}

	// D. rot
	for off := t.Intn(step); off < len(e); off += step {
		b := e[off]
		for _, nb := range []byte{0x00, 0xFF, ^b, b ^ 0x80, b + 1, b - 1} {
			if nb == b {
				continue
			}
			m := append([]byte(nil), e...)
			m[off] = nb
			if _, _, ok := c.decode(m, c08Mode{}, "rotted"); !ok {
				return
			}
			r.Fault("rot(byte-substitution)")
		}
	}

	// E. sizes: negative, oversized, out of range
	for _, s := range sites {
		rem := int64(len(e) - (s.Off + s.N))
		type repl struct {
			b    []byte
			kind string
		}
		var repls []repl
		if compact {
			hdr := []byte{}
			if s.Short {
				hdr = []byte{0xF0 | byte(s.Elem)}
			}
			for _, nv := range []uint64{uint64(rem) + 1, uint64(rem) + 1000, 1 << 20, 1 << 24, 1 << 28, 1<<31 - 1} {
				repls = append(repls, repl{append(append([]byte(nil), hdr...), ref.AppendUvarint(nil, nv, 0)...), "size-oversized"})
			}
			for _, nv := range []uint64{1 << 31, 1 << 35, 1 << 63, 1<<64 - 1} {
				repls = append(repls, repl{append(append([]byte(nil), hdr...), ref.AppendUvarint(nil, nv, 0)...), "size-out-of-range"})
			}
		} else {
			be := func(v uint32) []byte { return []byte{byte(v >> 24), byte(v >> 16), byte(v >> 8), byte(v)} }
			for _, nv := range []uint32{uint32(rem) + 1, uint32(rem) + 1000, 1 << 20, 1 << 24, 1 << 28, 1<<31 - 1} {
				repls = append(repls, repl{be(nv), "size-oversized"})
			}
			for _, nv := range []uint32{0xFFFFFFFF, 0x80000000, 0xFFFFFF00, 0x80000001} {
				repls = append(repls, repl{be(nv), "size-negative"})
			}
		}
		for _, rp := range repls {
			m := splice(e, s.Off, s.N, rp.b)
			// non-strict decoding returns early, without an error, when the element
			// types that follow a corrupted size no longer match the target: only
			// no panic / bounded memory is demanded there.  In strict mode every
			// path must end in an error (each element needs at least one byte and
			// the declared count exceeds the bytes left).
			if _, _, ok := c.decode(m, c08Mode{}, rp.kind); !ok {
				return
			}
			_, err, ok := c.decode(m, c08Mode{strict: true, decoder: true}, rp.kind)
			if !ok {
				return
			}
			r.Fault(rp.kind)
			if err == nil {
				fail("bad-size-accepted", rp.kind+"-accepted:"+s.Kind, m, "error", "a %s of %d replaced by a %s value is accepted without error (%s, type %s)\ninput=%x", s.Kind, s.Value, rp.kind, thriftProtoNames[pi], ty.name, clip(m, 200))
				return
			}
		}
	}

	all, top, required := thriftIDs(ty.rt)
	maxID := 0
	for id := range all {
		if id > maxID {
			maxID = id
		}
	}
	if perr == nil && topT == ref.TStruct {
		// F. foreign fields at every boundary of every struct level
		var levels []*ref.TVal
		ref.StructLevels(&tree, &levels)
		if len(levels) > 1 {
			r.Probe("struct-levels>1")
		}
		ids := []int16{int16(maxID + 1), int16(maxID + 70), 30000, -5}
		if !all[0] {
			ids = append(ids, 0) // field id zero is legal on the wire
		}
		for g := 1; g < maxID; g++ {
			if !all[g] {
				ids = append(ids, int16(g))
				break
			}
		}
		fvals := foreignVals()
		nlev := len(levels)
		lstep := 1
		if nlev > 12 {
			lstep = nlev/12 + 1
		}
		for li := 0; li < nlev; li += lstep {
			lv := levels[li]
			bstep := 1
			if len(lv.Fields) > 10 {
				bstep = len(lv.Fields)/10 + 1
			}
			for bi := 0; bi <= len(lv.Fields); bi += bstep {
				for _, id := range ids {
					// every foreign shape at the first boundaries, a rotating subset later
					for fi := range fvals {
						if bi > 1 && (fi+bi+int(id))%4 != 0 {
							continue
						}
						saved := lv.Fields
						nf := make([]ref.TField, 0, len(saved)+1)
						nf = append(nf, saved[:bi]...)
						nf = append(nf, ref.TField{ID: id, Val: fvals[fi]})
						nf = append(nf, saved[bi:]...)
						lv.Fields = nf
						m := ref.ThriftAppend(nil, &tree, compact, stop3)
						lv.Fields = saved
						x, err, ok := c.decode(m, c08Mode{strict: fi%2 == 0, decoder: fi%2 == 0}, "foreign-field")
						if !ok {
							return
						}
						r.Fault("foreign-field")
						if li > 0 {
							r.Fault("foreign-field-nested-level")
						}
						if err != nil {
							fail("foreign-field", "foreign-field-rejected", m, "same-as-base", "a field with undeclared id %d of thrift type %d inserted at boundary %d of struct level %d makes decoding fail: %v (%s, type %s)\ninput=%x\nbase=%x", id, fvals[fi].Type, bi, li, err, thriftProtoNames[pi], ty.name, clip(m, 300), clip(e, 300))
							return
						}
						if !sameAsBase(x) {
							fail("foreign-field", "foreign-field-changes-value", m, "same-as-base", "a field with undeclared id %d of thrift type %d inserted at boundary %d of struct level %d changes the decoded value (%s, type %s)\ninput=%x\nbase=%x", id, fvals[fi].Type, bi, li, thriftProtoNames[pi], ty.name, clip(m, 300), clip(e, 300))
							return
						}
						// the input ends right behind that field (top level, scalar shapes):
						// truncated, whatever the id of the last field read
						if li == 0 && fi < 8 && (fi+bi)%3 == 0 {
							lv.Fields = nf[: bi+1 : bi+1]
							whole := ref.ThriftAppend(nil, &tree, compact, stop3)
							lv.Fields = saved
							stopLen := 1
							if stop3 {
								stopLen = 3
							}
							if cutm := whole[:len(whole)-stopLen]; len(cutm) > 0 {
								_, err, ok := c.decode(cutm, c08Mode{}, "torn-behind-foreign-field")
								if !ok {
									return
								}
								r.Fault("eof-right-behind-a-foreign-field")
								if err == nil || err == io.EOF || !errors.Is(err, io.ErrUnexpectedEOF) {
									fail("eof-class", "truncated-not-unexpected-eof", cutm, "unexpected-eof", "input ending right behind a field with undeclared id %d (no STOP): expected an unexpected-EOF class error, got %v (%s, type %s)\ninput=%x", id, err, thriftProtoNames[pi], ty.name, clip(cutm, 300))
									return
								}
							}
						}
					}
				}
			}
		}
		// F2. a foreign (to be skipped) collection or binary whose declared size is
		// corrupted: skipping must fail (the elements are not there) within the
		// allocation bound, whatever the element width
		{
			lv := levels[0]
			id := ids[0]
			for _, et := range []int8{ref.TDouble, ref.TI8, ref.TFalse, ref.TI64, ref.TBinary, ref.TStruct} {
				for _, kind := range []int8{ref.TList, ref.TSet, ref.TMap, ref.TBinary} {
					for _, count := range []uint32{1 << 28, 1 << 29, 1 << 30, 1<<31 - 1, 3 << 28, 1 << 20, 1000} {
						if kind == ref.TBinary && et != ref.TDouble {
							continue
						}
						// marker values make the size easy to find after serialisation
						var fv ref.TVal
						switch kind {
						case ref.TBinary:
							fv = ref.TVal{Type: ref.TBinary, Bin: []byte("size-site")}
						case ref.TMap:
							fv = ref.TVal{Type: ref.TMap, Key: ref.TI32, Val: et, Keys: []ref.TVal{{Type: ref.TI32, I: 1}}, Vals: []ref.TVal{zeroOf(et)}}
						default:
							fv = ref.TVal{Type: kind, Elem: et, Elems: []ref.TVal{zeroOf(et)}}
						}
						saved := lv.Fields
						nf := append([]ref.TField{{ID: id, Val: fv}}, saved...)
						lv.Fields = nf
						m := ref.ThriftAppend(nil, &tree, compact, stop3)
						lv.Fields = saved
						// the foreign field is the first field: its size is the first site
						_, fsites, ferr := ref.ThriftParse(m, topT, compact, stop3)
						if ferr != nil || len(fsites) == 0 {
							continue
						}
						fs := fsites[0]
						if int(count) <= len(m) {
							continue // the declared bytes could actually be there
						}
						var repl []byte
						if compact {
							if fs.Short {
								repl = append([]byte{0xF0 | byte(fs.Elem)}, ref.AppendUvarint(nil, uint64(count), 0)...)
							} else {
								repl = ref.AppendUvarint(nil, uint64(count), 0)
							}
						} else {
							repl = []byte{byte(count >> 24), byte(count >> 16), byte(count >> 8), byte(count)}
						}
						mm := splice(m, fs.Off, fs.N, repl)
						_, err, ok := c.decode(mm, c08Mode{strict: count%2 == 0, decoder: count%2 == 0}, "foreign-field-with-corrupted-size")
						if !ok {
							return
						}
						r.Fault("foreign-field-with-corrupted-size")
						if err == nil {
							fail("bad-size-accepted", "foreign-size-oversized-accepted", mm, "error", "an unknown field of thrift type %d (element type %d) declaring %d elements/bytes that are not in the input is skipped without error (%s, type %s)\ninput=%x", kind, et, count, thriftProtoNames[pi], ty.name, clip(mm, 200))
							return
						}
					}
				}
			}
		}
		// H0. the message is completed, from the type's own tags, with every required
		// top-level field the encoding does not carry (zero value of its thrift type):
		// what the type declares is decided here, not by the library's field walk
		{
			have := map[int]bool{}
			for _, f := range tree.Fields {
				have[int(f.ID)] = true
			}
			added := false
			for _, f := range thriftFieldsOf(ty.rt) {
				parts := strings.Split(f.Tag.Get("thrift"), ",")
				id, err := strconv.Atoi(parts[0])
				isReq := false
				for _, o := range parts[1:] {
					isReq = isReq || o == "required"
				}
				if err != nil || !isReq || have[id] {
					continue
				}
				if tt, ok := thriftTypeOfGo(f.Type); ok {
					tree.Fields = append(tree.Fields, ref.TField{ID: int16(id), Val: zeroOf(tt)})
					added = true
				}
			}
			if added {
				sort.SliceStable(tree.Fields, func(i, j int) bool { return tree.Fields[i].ID < tree.Fields[j].ID })
				r.Probe("required-fields-completed-from-the-tags")
			}
		}
		// H. each required top-level field removed
		for _, id := range required {
			r.Probe("required-fields")
			var nf []ref.TField
			for _, f := range tree.Fields {
				if int(f.ID) != id {
					nf = append(nf, f)
				}
			}
			if len(nf) == len(tree.Fields) {
				continue
			}
			saved := tree.Fields
			tree.Fields = nf
			m := ref.ThriftAppend(nil, &tree, compact, stop3)
			// the same with another required field present twice (a repeated header
			// is legal on the wire; it does not stand in for the missing one)
			var mdup []byte
			for _, f := range nf {
				isReq := false
				for _, q := range required {
					if int(f.ID) == q {
						isReq = true
					}
				}
				if isReq {
					tree.Fields = append(append([]ref.TField(nil), nf...), f)
					sort.SliceStable(tree.Fields, func(i, j int) bool { return tree.Fields[i].ID < tree.Fields[j].ID })
					mdup = ref.ThriftAppend(nil, &tree, compact, stop3)
					break
				}
			}
			tree.Fields = saved
			if mdup != nil {
				_, err, ok := c.decode(mdup, c08Mode{}, "required-removed-other-duplicated")
				if !ok {
					return
				}
				r.Fault("required-field-removed-while-another-is-repeated")
				var mf *thrift.MissingField
				if !errors.As(err, &mf) {
					fail("missing-field", "missing-required-not-reported", mdup, "missing-field", "required field %d removed and another required field present twice: expected *thrift.MissingField, got %v (%s, type %s)\ninput=%x", id, err, thriftProtoNames[pi], ty.name, clip(mdup, 300))
					return
				}
			}
			// history: a decode of the same type that fails after it has read the
			// required fields comes first (state kept per type must not leak)
			if len(e) > 1 {
				if _, _, ok := c.decode(e[:len(e)-1], c08Mode{}, "torn"); !ok {
					return
				}
				r.Fault("failed-decode-then-decode")
			}
			_, err, ok := c.decode(m, c08Mode{}, "required-removed")
			if !ok {
				return
			}
			r.Fault("required-field-removed")
			var mf *thrift.MissingField
			if !errors.As(err, &mf) {
				defer func() {
					if sc, ok := r.ScenarioOut.(*c08Scenario); ok && len(e) > 1 {
						sc.Prelude = e[:len(e)-1]
					}
				}()
				fail("missing-field", "missing-required-not-reported", m, "missing-field", "required field %d removed from the encoding: expected *thrift.MissingField, got %v (%s, type %s)\ninput=%x", id, err, thriftProtoNames[pi], ty.name, clip(m, 300))
				return
			}
		}
		// I. a declared top-level field given another wire type (well-formed payload)
		for fi := range tree.Fields {
			f := tree.Fields[fi]
			if !top[int(f.ID)] {
				continue
			}
			repl := ref.TVal{Type: ref.TBinary, Bin: []byte("retyped")}
			if f.Val.Type == ref.TBinary {
				repl = ref.TVal{Type: ref.TI32, I: 7}
			}
			saved := tree.Fields[fi]
			tree.Fields[fi].Val = repl
			m := ref.ThriftAppend(nil, &tree, compact, stop3)
			tree.Fields[fi] = saved
			retyped = m
			_, err, ok := c.decode(m, c08Mode{strict: true, decoder: true}, "wire-type-changed")
			if !ok {
				return
			}
			r.Fault("wire-type-changed(strict)")
			var tm *thrift.TypeMismatch
			if !errors.As(err, &tm) {
				fail("type-mismatch", "type-mismatch-not-reported", m, "type-mismatch(strict)", "declared field %d (thrift type %d) encoded with thrift type %d: strict decoding returned %v instead of *thrift.TypeMismatch (%s, type %s)\ninput=%x", f.ID, f.Val.Type, repl.Type, err, thriftProtoNames[pi], ty.name, clip(m, 300))
				return
			}
			if _, _, ok := c.decode(m, c08Mode{}, "wire-type-changed"); !ok {
				return
			}
			r.Fault("wire-type-changed(non-strict)")
		}
		// I3. the same two rules below the top level: in every nested struct level a
		// required field removed is a MissingField, and (strict mode) a declared
		// field given another wire type is a TypeMismatch
		{
			var tl []typedLevel
			typedLevels(&tree, ty.rt, &tl, 0)
			for li, l := range tl {
				if li == 0 || li > 16 {
					continue
				}
				ids, req := thriftLevelIDs(l.st)
				for fi := range l.lv.Fields {
					f := l.lv.Fields[fi]
					if !ids[int(f.ID)] {
						continue
					}
					if req[int(f.ID)] {
						saved := l.lv.Fields
						nf := append(append([]ref.TField(nil), saved[:fi]...), saved[fi+1:]...)
						l.lv.Fields = nf
						m := ref.ThriftAppend(nil, &tree, compact, stop3)
						l.lv.Fields = saved
						_, err, ok := c.decode(m, c08Mode{}, "nested-required-removed")
						if !ok {
							return
						}
						r.Fault("nested-required-field-removed")
						var mf *thrift.MissingField
						if !errors.As(err, &mf) {
							fail("missing-field", "missing-nested-required-not-reported", m, "missing-field", "required field %d removed from nested struct level %d (%s): expected *thrift.MissingField, got %v (%s, type %s)\ninput=%x", f.ID, li, l.st, err, thriftProtoNames[pi], ty.name, clip(m, 300))
							return
						}
					}
					repl := ref.TVal{Type: ref.TBinary, Bin: []byte("retyped")}
					if f.Val.Type == ref.TBinary {
						repl = ref.TVal{Type: ref.TI32, I: 7}
					}
					l.lv.Fields[fi].Val = repl
					m := ref.ThriftAppend(nil, &tree, compact, stop3)
					l.lv.Fields[fi] = f
					_, err, ok := c.decode(m, c08Mode{strict: true, decoder: true}, "nested-wire-type-changed")
					if !ok {
						return
					}
					r.Fault("nested-wire-type-changed(strict)")
					var tm *thrift.TypeMismatch
					if !errors.As(err, &tm) {
						fail("type-mismatch", "nested-type-mismatch-not-reported", m, "type-mismatch(strict)", "field %d of nested struct level %d (%s, thrift type %d) encoded with thrift type %d: strict decoding returned %v instead of *thrift.TypeMismatch (%s, type %s)\ninput=%x", f.ID, li, l.st, f.Val.Type, repl.Type, err, thriftProtoNames[pi], ty.name, clip(m, 300))
						return
					}
				}
			}
		}
		// I2. the elements (keys, values) of a declared non-empty collection given
		// another wire type, all of them well-formed
		for fi := range tree.Fields {
			f := tree.Fields[fi]
			if !top[int(f.ID)] {
				continue
			}
			retype := func(vs []ref.TVal, was int8) ([]ref.TVal, int8) {
				nt, nv := int8(ref.TBinary), ref.TVal{Type: ref.TBinary, Bin: []byte("re")}
				if was == ref.TBinary {
					nt, nv = ref.TI32, ref.TVal{Type: ref.TI32, I: 7}
				}
				out := make([]ref.TVal, len(vs))
				for i := range out {
					out[i] = nv
				}
				return out, nt
			}
			var variants []ref.TVal
			switch f.Val.Type {
			case ref.TList, ref.TSet:
				if len(f.Val.Elems) > 0 {
					v := f.Val
					v.Elems, v.Elem = retype(f.Val.Elems, f.Val.Elem)
					variants = append(variants, v)
				}
			case ref.TMap:
				if len(f.Val.Keys) > 0 {
					v := f.Val
					v.Keys, v.Key = retype(f.Val.Keys, f.Val.Key)
					variants = append(variants, v)
					v = f.Val
					v.Vals, v.Val = retype(f.Val.Vals, f.Val.Val)
					variants = append(variants, v)
				}
			}
			for _, nv := range variants {
				saved := tree.Fields[fi]
				tree.Fields[fi].Val = nv
				m := ref.ThriftAppend(nil, &tree, compact, stop3)
				tree.Fields[fi] = saved
				_, err, ok := c.decode(m, c08Mode{strict: true, decoder: true}, "element-type-changed")
				if !ok {
					return
				}
				r.Fault("element-type-changed(strict)")
				var tm *thrift.TypeMismatch
				if !errors.As(err, &tm) {
					fail("type-mismatch", "element-type-mismatch-not-reported", m, "type-mismatch(strict)", "declared field %d: the elements of its non-empty collection (thrift type %d) encoded with another thrift type: strict decoding returned %v instead of *thrift.TypeMismatch (%s, type %s)\ninput=%x", f.ID, f.Val.Type, err, thriftProtoNames[pi], ty.name, clip(m, 300))
					return
				}
				if _, _, ok := c.decode(m, c08Mode{}, "element-type-changed"); !ok {
					return
				}
			}
		}
	}

	// G. trailing bytes
	for _, junk := range [][]byte{{0}, {0xFF}, []byte("xyz"), e} {
		m := append(append([]byte(nil), e...), junk...)
		_, err, ok := c.decode(m, c08Mode{}, "trailing-bytes")
		if !ok {
			return
		}
		r.Fault("trailing-bytes")
		if err == nil {
			fail("trailing-bytes", "trailing-bytes-accepted", m, "error", "Unmarshal accepted %d trailing bytes after a complete value (%s, type %s)", len(junk), thriftProtoNames[pi], ty.name)
			return
		}
	}

	// K. one long-lived Decoder: successive values from one stream, then Reset to
	// another reader after a failed decode; strict mode survives Reset
	if !c.longLived(e, base, p, retyped) {
		return
	}

	// J. direct Reader method calls on arbitrary bytes
	for i := 0; i < 6; i++ {
		var in []byte
		if i < 3 {
			in = append([]byte(nil), e...)
			for j := 0; j < 1+t.Intn(3) && len(in) > 0; j++ {
				in[t.Intn(len(in))] = byte(t.Intn(256))
			}
			in = in[t.Intn(len(in)+1):]
		} else {
			in = make([]byte, t.Intn(24))
			for j := range in {
				in[j] = []byte{0, 1, 0x7f, 0x80, 0xff, byte(t.Intn(256))}[t.Intn(6)]
			}
		}
		if !c.readerMethods(in) {
			return
		}
		r.Fault("reader-method-on-arbitrary-bytes")
	}
	r.Steps += r.Evaluations
}

// readerMethods calls every Reader method on in, each on a fresh reader.
func (c *c08Ctx) readerMethods(in []byte) bool {
	r := c.r
	p := thriftProtos[c.pi]
	names := []string{"ReadBool", "ReadInt8", "ReadInt16", "ReadInt32", "ReadInt64", "ReadFloat64", "ReadBytes", "ReadString", "ReadLength", "ReadMessage", "ReadField", "ReadList", "ReadSet", "ReadMap"}
	for mi, name := range names {
		r.Evaluations++
		var rd io.Reader = bytes.NewReader(in)
		if mi%2 == 1 {
			rd = &simio.Reader{Data: in, Cut: len(in), Final: io.EOF, Tail: 3}
		}
		tr := p.NewReader(rd)
		before := heapAllocs()
		var pan string
		func() {
			defer func() {
				if e := recover(); e != nil {
					pan = fmt.Sprintf("%v\n%s", e, stackOfLibrary())
				}
			}()
			switch mi {
			case 0:
				tr.ReadBool()
			case 1:
				tr.ReadInt8()
			case 2:
				tr.ReadInt16()
			case 3:
				tr.ReadInt32()
			case 4:
				tr.ReadInt64()
			case 5:
				tr.ReadFloat64()
			case 6:
				tr.ReadBytes()
			case 7:
				tr.ReadString()
			case 8:
				tr.ReadLength()
			case 9:
				tr.ReadMessage()
			case 10:
				tr.ReadField()
			case 11:
				tr.ReadList()
			case 12:
				tr.ReadSet()
			case 13:
				tr.ReadMap()
			}
		}()
		after := heapAllocs()
		if pan != "" {
			r.Fail("panic", "reader-panic:"+name+":"+panicSite(pan), "%s.%s panicked on %x: %s", thriftProtoNames[c.pi], name, clip(in, 64), pan)
			return false
		}
		if d := after - before; after > before && d > 1<<20+1024*uint64(len(in)) {
			r.Fail("allocation", "alloc-unbounded:"+name, "%s Reader.%s allocated %d bytes for a %d-byte input %x", thriftProtoNames[c.pi], name, d, len(in), clip(in, 64))
			r.ScenarioOut = &c08Scenario{Type: "TInner", Proto: c.pi, Input: in, Expect: "reader:" + name}
			return false
		}
	}
	return true
}

func c08RunScenario(r *core.Run) {
	sc := &c08Scenario{}
	if err := stdjson.Unmarshal(r.Scenario, sc); err != nil {
		core.Harness("C08 scenario: %v", err)
	}
	ty := thriftTypeOfScenario(sc)
	c := &c08Ctx{r: r, ty: ty, pi: sc.Proto}
	warmThrift(thriftProtos[sc.Proto], ty.rt)
	if strings.HasPrefix(sc.Expect, "reader:") {
		c.readerMethods(sc.Input)
		return
	}
	if sc.Prelude != nil {
		if _, _, ok := c.decode(sc.Prelude, c08Mode{}, "scenario-prelude"); !ok {
			return
		}
	}
	if sc.Expect == "type-mismatch(strict-after-reset)" {
		c.longLived(sc.Base, reflect.Value{}, thriftProtos[sc.Proto], sc.Input)
		return
	}
	m := c08Mode{}
	if sc.Expect == "type-mismatch(strict)" {
		m = c08Mode{strict: true, decoder: true}
	}
	x, err, ok := c.decode(sc.Input, m, "scenario")
	if !ok {
		return
	}
	switch sc.Expect {
	case "same-as-base":
		y, err0, ok := c.decode(sc.Base, c08Mode{}, "scenario-base")
		if !ok {
			return
		}
		if err0 != nil {
			r.Fail("foreign-field", "base-encoding-rejected", "the unfaulted encoding of the scenario is rejected: %v", err0)
		} else if err != nil {
			r.Fail("foreign-field", "foreign-field-rejected", "input rejected: %v", err)
		} else if !reflect.DeepEqual(x.Interface(), y.Interface()) {
			r.Fail("foreign-field", "foreign-field-changes-value", "input decodes to a different value than its base")
		}
	case "error":
		if err == nil {
			r.Fail("bad-input-accepted", "bad-input-accepted", "input accepted without error")
		}
	case "unexpected-eof":
		if len(sc.Input) == 0 {
			if err == nil || !isEOFClass(err) {
				r.Fail("eof-class", "empty-input-not-eof", "empty input: %v", err)
			}
		} else if err == nil || err == io.EOF || !errors.Is(err, io.ErrUnexpectedEOF) {
			r.Fail("eof-class", "truncated-not-unexpected-eof", "truncated input: %v", err)
		}
	case "missing-field":
		var mf *thrift.MissingField
		if !errors.As(err, &mf) {
			r.Fail("missing-field", "missing-required-not-reported", "expected MissingField, got %v", err)
		}
	case "type-mismatch(strict)":
		var tm *thrift.TypeMismatch
		if !errors.As(err, &tm) {
			r.Fail("type-mismatch", "type-mismatch-not-reported", "expected TypeMismatch, got %v", err)
		}
	}
}

// warmThrift makes the library build its decoder for rt before anything is
// measured: the per-type field table (indexed by field id) is a one-time cost
// of the type, not memory allocated on behalf of an input.
func warmThrift(p thrift.Protocol, rt reflect.Type) {
	defer func() { recover() }()
	thrift.Unmarshal(p, []byte{0}, reflect.New(rt).Interface())
}

// bigSites returns the size sites of a struct encoding (first = the outermost collection).
func bigSites(b []byte, compact bool) []ref.TSite {
	_, sites, err := ref.ThriftParse(b, ref.TStruct, compact, !compact)
	if err != nil {
		return nil
	}
	return sites
}

// TBigBin carries the large string of c08LargeBinary between two small fields.
type TBigBin struct {
	A bool   `thrift:"1"`
	S string `thrift:"2"`
	N int32  `thrift:"3"`
}

// c08LargeBinary: a string / binary longer than 64 KiB (read in chunks by the
// library), top-level and as a struct field, cut around the powers of two of its
// payload: the truncation rule and the allocation bound hold there too.
func c08LargeBinary(r *core.Run) bool {
	t := r.T
	pi := t.Intn(3)
	p := thriftProtos[pi]
	n := []int{65537, 100000, 131073, 300000}[t.Intn(4)]
	payload := bytes.Repeat([]byte("large-binary-"), n/13+1)[:n]
	var ty *simType
	var v any
	switch t.Intn(3) {
	case 0:
		ty, v = &simType{codec: gen.Thrift, rt: reflect.TypeOf(""), name: "string"}, string(payload)
	case 1:
		ty, v = &simType{codec: gen.Thrift, rt: reflect.TypeOf([]byte(nil)), name: "[]byte"}, payload
	default:
		ty, v = &simType{codec: gen.Thrift, rt: reflect.TypeOf(TBigBin{}), name: "TBigBin"}, TBigBin{A: true, S: string(payload), N: 7}
	}
	e, err := thriftMarshalNoPanic(p, v)
	if err != nil || len(e) < n {
		r.Probe("precondition-failed(skipped)")
		return true
	}
	c := &c08Ctx{r: r, ty: ty, pi: pi}
	warmThrift(p, ty.rt)
	r.Fault("large-binary(>64KiB)")
	hdr := bytes.Index(e, payload[:64])
	if hdr < 0 {
		r.Probe("precondition-failed(skipped)")
		return true
	}
	var cuts []int
	for _, k := range []int{0, 1, 4095, 4096, 4097, 65535, 65536, 65537, 131071, 131072, 131073, 262143, 262144, 262145, n - 1, n - 4096} {
		if k >= 0 && k < n {
			cuts = append(cuts, hdr+k)
		}
	}
	cuts = append(cuts, hdr-1, hdr+t.Intn(n))
	for i, k := range cuts {
		var m c08Mode
		switch (i + pi) % 3 {
		case 1:
			m = c08Mode{viaSim: true, cut: k, tail: []int{1 << 20, 4096, 65536, 7001}[i%4]}
		case 2:
			m = c08Mode{viaSim: true, byteReader: true, cut: k, tail: []int{1 << 20, 4096, 65536, 7001}[i%4]}
		}
		in := e[:k]
		if m.viaSim {
			in = e
		}
		_, err, ok := c.decode(in, m, "large-binary-torn")
		if !ok {
			return false
		}
		if err == nil || err == io.EOF || !errors.Is(err, io.ErrUnexpectedEOF) {
			key := "truncated-not-unexpected-eof"
			if err == io.EOF {
				key = "truncated-plain-eof"
			} else if err == nil {
				key = "truncated-accepted"
			}
			r.Fail("eof-class", key, "a %d-byte %s (%s, %s) truncated after %d payload bytes (offset %d of %d): expected an unexpected-EOF class error, got %v", n, ty.name, thriftProtoNames[pi], modeName(m), k-hdr, k, len(e), err)
			if !m.viaSim && ty.name != "TBigBin" {
				r.ScenarioOut = c.scenario(e[:k], nil, "unexpected-eof")
			}
			return false
		}
	}
	// trailing bytes after the complete value are reported, whatever the size of the input
	for _, junk := range [][]byte{{0}, {0xff, 0xff, 0xff}, bytes.Repeat([]byte{'x'}, 100), bytes.Repeat([]byte{0}, 5000)} {
		m := append(append([]byte(nil), e...), junk...)
		_, err, ok := c.decode(m, c08Mode{}, "large-binary-trailing")
		if !ok {
			return false
		}
		r.Fault("trailing-bytes")
		if err == nil {
			r.Fail("trailing-bytes", "trailing-bytes-accepted", "Unmarshal accepted %d trailing bytes after a complete %d-byte %s (%s)", len(junk), n, ty.name, thriftProtoNames[pi])
			if ty.name != "TBigBin" {
				r.ScenarioOut = c.scenario(m, nil, "error")
			}
			return false
		}
	}
	// the complete value, delivered in chunks, is the value
	for i, tail := range []int{1 << 20, 4096, 65536, 65535, 9973} {
		x, err, ok := c.decode(e, c08Mode{viaSim: true, byteReader: i%2 == 1, cut: -1, tail: tail}, "large-binary-chunked")
		if !ok {
			return false
		}
		if err != nil || !reflect.DeepEqual(x.Elem().Interface(), v) {
			r.Fail("chunking-changes-result", "chunking-changes-result", "a %d-byte %s (%s) delivered in chunks of %d: err=%v / another value", n, ty.name, thriftProtoNames[pi], tail, err)
			return false
		}
	}
	return true
}

// emptyForReuse resets a decoded value the way a caller that wants to keep its
// memory does: slices to length zero, maps cleared, pointers kept, scalars zeroed.
func emptyForReuse(v reflect.Value, depth int) {
	if depth > 8 || !v.IsValid() || !v.CanSet() {
		return
	}
	switch v.Kind() {
	case reflect.Slice:
		if !v.IsNil() {
			v.Set(v.Slice(0, 0))
		}
	case reflect.Map:
		if !v.IsNil() {
			v.Clear()
		}
	case reflect.Ptr:
		if !v.IsNil() {
			emptyForReuse(v.Elem(), depth+1)
		}
	case reflect.Struct:
		for i := 0; i < v.NumField(); i++ {
			if v.Type().Field(i).PkgPath == "" {
				emptyForReuse(v.Field(i), depth+1)
			}
		}
	default:
		v.Set(reflect.Zero(v.Type()))
	}
}

// c08Scaling: a list / map with 8 times as many elements may allocate at most 16
// times as much (plus slack): linear growth, whatever the constant.
func c08Scaling(r *core.Run) bool {
	t := r.T
	pi := t.Intn(3)
	compact := pi == 2
	n := []int{1500, 2048, 3000}[t.Intn(3)]
	kind := t.Intn(2)
	build := func(k int) []byte {
		var root ref.TVal
		if kind == 0 { // TNode.Kids: list<struct>
			kids := make([]ref.TVal, k)
			for i := range kids {
				kids[i] = ref.TVal{Type: ref.TStruct, Fields: []ref.TField{{ID: 1, Val: ref.TVal{Type: ref.TI64, I: int64(i)}}, {ID: 5, Val: ref.TVal{Type: ref.TBinary, Bin: []byte{}}}}}
			}
			root = ref.TVal{Type: ref.TStruct, Fields: []ref.TField{{ID: 3, Val: ref.TVal{Type: ref.TList, Elem: ref.TStruct, Elems: kids}}, {ID: 5, Val: ref.TVal{Type: ref.TBinary, Bin: []byte("n")}}}}
		} else { // TMisc.Set: set<string>
			el := make([]ref.TVal, k)
			for i := range el {
				el[i] = ref.TVal{Type: ref.TBinary, Bin: []byte(fmt.Sprintf("k%d", i))}
			}
			root = ref.TVal{Type: ref.TStruct, Fields: []ref.TField{{ID: 1, Val: ref.TVal{Type: ref.TSet, Elem: ref.TBinary, Elems: el}}, {ID: 6, Val: ref.TVal{Type: ref.TStruct}}}}
		}
		return ref.ThriftAppend(nil, &root, compact, !compact)
	}
	rt := reflect.TypeOf(TNode{})
	name := "TNode.Kids (list<struct>)"
	if kind == 1 {
		rt, name = reflect.TypeOf(TMisc{}), "TMisc.Set (set<string>)"
	}
	p := thriftProtos[pi]
	warmThrift(p, rt)
	measure := func(in []byte) (uint64, error, string) {
		x := reflect.New(rt)
		var err error
		var pan string
		before := totalAlloc()
		func() {
			defer func() {
				if e := recover(); e != nil {
					pan = fmt.Sprintf("%v\n%s", e, stackOfLibrary())
				}
			}()
			err = thrift.Unmarshal(p, in, x.Interface())
		}()
		return totalAlloc() - before, err, pan
	}
	small, big := build(n), build(8*n)
	a1, e1, p1 := measure(small)
	a8, e8, p8 := measure(big)
	r.Evaluations += 2
	r.Fault("scaling-probe(n vs 8n elements)")
	if p1 != "" || p8 != "" {
		r.Fail("panic", "decode-panic:"+panicSite(p1+p8), "thrift.Unmarshal panicked on %d / %d elements of %s: %s%s", n, 8*n, name, p1, p8)
		return false
	}
	if e1 != nil || e8 != nil {
		core.Harness("C08 scaling probe input rejected (%s, %s): %v %v", thriftProtoNames[pi], name, e1, e8)
	}
	// the destination of the short message, emptied by the caller as the doc comment
	// of Unmarshal allows (slices cut to length zero, capacity kept; maps cleared),
	// receives the long one: as into a fresh destination
	{
		x, fresh := reflect.New(rt), reflect.New(rt)
		var err, errFresh error
		var pan string
		func() {
			defer func() {
				if e := recover(); e != nil {
					pan = fmt.Sprintf("%v\n%s", e, stackOfLibrary())
				}
			}()
			if err = thrift.Unmarshal(p, small, x.Interface()); err == nil {
				emptyForReuse(x.Elem(), 0)
				err = thrift.Unmarshal(p, big, x.Interface())
			}
			errFresh = thrift.Unmarshal(p, big, fresh.Interface())
		}()
		r.Evaluations += 3
		r.Fault("destination-emptied-and-reused")
		if pan != "" {
			r.Fail("panic", "decode-panic:"+panicSite(pan), "thrift.Unmarshal panicked decoding %d elements of %s into the emptied destination of a %d-element message: %s", 8*n, name, n, pan)
			return false
		}
		if err != nil || errFresh != nil || !reflect.DeepEqual(x.Interface(), fresh.Interface()) {
			r.Fail("reuse", "emptied-destination-differs", "thrift.Unmarshal of %d elements of %s into the emptied destination of a %d-element message: err=%v (fresh destination: %v) or another value (%s)", 8*n, name, n, err, errFresh, thriftProtoNames[pi])
			return false
		}
	}
	// a long list / set that really delivers its elements, under a header that
	// announces far more: must fail, within the bound on the bytes available
	if sites8 := bigSites(big, compact); len(sites8) > 0 {
		s0 := sites8[0]
		var repl []byte
		if compact {
			repl = ref.AppendUvarint(nil, 1<<28, 0)
			if s0.Short {
				repl = append([]byte{0xF0 | byte(s0.Elem)}, repl...)
			}
		} else {
			repl = []byte{0x10, 0, 0, 0}
		}
		m := splice(big, s0.Off, s0.N, repl)
		x := reflect.New(rt)
		before := totalAlloc()
		var err error
		func() {
			defer func() {
				if e := recover(); e != nil {
					p8 = fmt.Sprintf("%v\n%s", e, stackOfLibrary())
				}
			}()
			err = thrift.Unmarshal(p, m, x.Interface())
		}()
		d := totalAlloc() - before
		r.Evaluations++
		r.Fault("inflated-count-on-a-long-collection")
		if p8 != "" {
			r.Fail("panic", "decode-panic:"+panicSite(p8), "thrift.Unmarshal panicked on %s with an inflated count: %s", name, p8)
			return false
		}
		if err == nil {
			r.Fail("bad-size-accepted", "size-oversized-accepted:long-collection", "%s announcing 2^28 elements but delivering %d is accepted without error (%s)", name, 8*n, thriftProtoNames[pi])
			return false
		}
		if d > 1<<20+1024*uint64(len(m)) {
			r.Fail("allocation", "alloc-unbounded:inflated-count-on-a-long-collection", "thrift.Unmarshal (%s) of %s announcing 2^28 elements and delivering %d (%d bytes) allocated %d bytes (bound 1 MiB + 1024 x available)", thriftProtoNames[pi], name, 8*n, len(m), d)
			return false
		}
	}
	if a8 > 16*a1+1<<20 {
		r.Fail("allocation", "alloc-superlinear", "thrift.Unmarshal (%s) of %s: %d elements (%d bytes) allocate %d bytes, %d elements (%d bytes) allocate %d bytes: 8 times the input costs %.1f times the memory (bound 16x + 1 MiB)", thriftProtoNames[pi], name, n, len(small), a1, 8*n, len(big), a8, float64(a8)/float64(a1+1))
		return false
	}
	return true
}

func thriftMarshalNoPanic(p thrift.Protocol, v any) (b []byte, err error) {
	defer func() {
		if e := recover(); e != nil {
			err = fmt.Errorf("panic: %v", e)
		}
	}()
	return thrift.Marshal(p, v)
}

func head(s []int, n int) []int {
	if len(s) > n {
		return s[:n]
	}
	return s
}
