package props

import (
	"bytes"
	stdjson "encoding/json"
	"fmt"
	"io"
	"math"
	"strconv"
	"unicode/utf8"
	"unsafe"

	"verifsim/core"
	"verifsim/gen"
	"verifsim/tape"

	"github.com/segmentio/encoding/json"
	"github.com/segmentio/encoding/verifshim/simhook"
)

// C17 — json.Tokenizer enumerates exactly the tokens of the document.
//
// History / pool dimension: 1..4 simulated goroutines own tokenizers and run
// scripts of new / next×k / drain / reset / abandon over valid and invalid
// documents, interleaved at Next boundaries and at pool operations, so that
// scope stacks left in every state migrate through the pool between
// tokenizers.  Every tokenisation of a valid document is compared token by
// token with a model derived from encoding/json's token stream.

func init() {
	core.Register(&core.Property{
		ID: "C17", Level: "exploration", Engine: "sched", Sched: true,
		Quick: 300000, Thorough: 10000000,
		Run:        runC17,
		Rule:       "one run = scripts of tokenizer operations (new, next×k, drain, reset, abandon, next-after-error) for 1..4 simulated goroutines over generated valid and structurally broken documents, plus pool policy and schedule, all from the tape; non-trivial = a tokenizer was reused after Reset, or a scope stack went through the pool to another tokenisation, or a context switch happened; distinct = distinct hash of (scripts, documents, schedule trace)",
		FaultKinds: []string{"abandon-with-open-scopes", "reset-mid-document", "reset-after-error", "invalid-document", "stack-reused-from-pool", "next-after-error", "context-switch-between-next", "pool-policy:lifo", "pool-policy:fifo", "pool-policy:random", "pool-policy:never-reuse", "pool-policy:drop-on-put"},
		ProbeNames: []string{"tokenisations", "valid-tokenisations-fully-checked", "tokens-checked", "invalid-tokenisations", "empty-container-inside-non-empty", "key-after-nested-object", "depth>=8", "depth>=32", "depth>=65", "depth>=257", "siblings>=65536", "valid-document-with-invalid-utf8-in-a-string", "pool-cross-task-handoff", "pool-reuse", "strings-with-escapes-checked", "numbers-checked"},
		Real:       []string{"json.Tokenizer, stack pool, scalar scanners (json/token.go, json/parse.go) compiled from /repo's working tree with sync redirected to the shim"},
		Model:      []string{"sync.Pool (simulated: LIFO/FIFO/random/never-reuse/drop, double-put monitor)", "scheduler (token passing, choices from the tape)", "reference: token stream of encoding/json.Decoder.Token plus a ten-line scope stack for Depth/Index/IsKey; json.Compact for the concatenation"},
		Assumptions: []string{
			"a document is one JSON value; validity is encoding/json.Valid (which accepts invalid UTF-8 inside strings; String() is compared with encoding/json's decoded token, U+FFFD included)",
			"for invalid documents only termination, no panic and error stickiness are demanded (the statement does not say which invalid inputs must set Err)",
			"Depth/Index/IsKey are checked on scalars and opening delimiters only, as the statement defines them",
		},
	})
}

type c17Step struct {
	Op  string `json:"op"` // new | next | drain | reset | abandon
	Tok int    `json:"tok"`
	Doc []byte `json:"doc,omitempty"`
	N   int    `json:"n,omitempty"`
}

type c17Scenario struct {
	Tasks [][]c17Step `json:"tasks"`
}

type tokExp struct {
	raw      []byte
	delim    byte
	class    json.Kind
	depth    int
	index    int
	isKey    bool
	checkPos bool
	isStr    bool
	str      string
	isNum    bool
	isBool   bool
	boolVal  bool
}

type c17Doc struct {
	doc    []byte
	valid  bool
	model  []tokExp
	maxDep int
}

// c17Model derives the expected token list of a valid document.
func c17Model(doc []byte) ([]tokExp, int) {
	dec := stdjson.NewDecoder(bytes.NewReader(doc))
	dec.UseNumber()
	type frame struct {
		obj       bool
		count     int
		expectKey bool
	}
	var stack []frame
	var out []tokExp
	prevEnd := 0
	maxDep := 0
	for {
		tk, err := dec.Token()
		if err == io.EOF {
			break
		}
		if err != nil {
			core.Harness("C17 model: encoding/json rejects a document json.Valid accepted: %v", err)
		}
		end := int(dec.InputOffset())
		raw := doc[prevEnd:end]
		prevEnd = end
		for len(raw) > 0 && (raw[0] == ' ' || raw[0] == '\n' || raw[0] == '\t' || raw[0] == '\r' || raw[0] == ',' || raw[0] == ':') {
			raw = raw[1:]
		}
		e := tokExp{raw: raw}
		closer := false
		switch v := tk.(type) {
		case stdjson.Delim:
			e.delim = byte(v)
			switch v {
			case '{':
				e.class = json.Object
			case '[':
				e.class = json.Array
			default:
				closer = true
			}
		case string:
			e.isStr, e.str, e.class = true, v, json.String
		case stdjson.Number:
			e.isNum, e.class = true, json.Num
		case bool:
			e.isBool, e.boolVal, e.class = true, v, json.Bool
		case nil:
			e.class = json.Null
		}
		if closer {
			stack = stack[:len(stack)-1]
			out = append(out, e)
		} else {
			e.checkPos = true
			e.depth = len(stack)
			if n := len(stack); n > 0 {
				p := &stack[n-1]
				if p.obj && p.expectKey {
					if p.count > 0 {
						out = append(out, tokExp{raw: []byte{','}, delim: ','})
					}
					e.isKey = true
					e.index = p.count
					out = append(out, e)
					out = append(out, tokExp{raw: []byte{':'}, delim: ':'})
					p.expectKey = false
					continue
				}
				if !p.obj && p.count > 0 {
					out = append(out, tokExp{raw: []byte{','}, delim: ','})
				}
				e.index = p.count
			}
			out = append(out, e)
			if e.delim == '{' {
				stack = append(stack, frame{obj: true, expectKey: true})
			} else if e.delim == '[' {
				stack = append(stack, frame{})
			}
			if len(stack) > maxDep {
				maxDep = len(stack)
			}
			if e.delim != 0 {
				continue // value completes when the container closes
			}
		}
		// a value just completed in the parent
		if n := len(stack); n > 0 {
			p := &stack[n-1]
			p.count++
			if p.obj {
				p.expectKey = true
			}
		}
	}
	// self-check: concatenation equals the compacted document
	var cat, cmp bytes.Buffer
	for _, e := range out {
		cat.Write(e.raw)
	}
	if err := stdjson.Compact(&cmp, doc); err != nil || !bytes.Equal(cat.Bytes(), cmp.Bytes()) {
		core.Harness("C17 model: token concatenation %q != compacted document %q (%v)", clip(cat.Bytes(), 200), clip(cmp.Bytes(), 200), err)
	}
	return out, maxDep
}

func c17GenDoc(t *tape.Tape) []byte {
	g := &gen.JSONDoc{T: t}
	var b []byte
	if t.Chance(1, 4) {
		b = g.WS(b, t.Range(1, 3))
	}
	if t.Chance(1, 1500) {
		// a very wide container: sibling counters around 2^8 and 2^16 (+-2)
		n := []int{254, 255, 256, 257, 258, 65534, 65535, 65536, 65537, 65538, 70000}[t.Intn(11)]
		obj := t.Bool()
		if obj {
			b = append(b, '{')
		} else {
			b = append(b, '[')
		}
		for i := 0; i < n; i++ {
			if i > 0 {
				b = append(b, ',')
			}
			if obj {
				b = append(b, '"', 'k')
				b = strconv.AppendInt(b, int64(i), 36)
				b = append(b, '"', ':')
			}
			switch i % 3 {
			case 0:
				b = append(b, '0'+byte(i%10))
			case 1:
				b = append(b, "[]"...)
			default:
				b = append(b, "true"...)
			}
		}
		if obj {
			b = append(b, '}')
		} else {
			b = append(b, ']')
		}
		return b
	}
	switch t.Pick(5, 2, 2, 1) {
	case 0:
		b = g.Value(b, t.Range(0, 300), 0)
	case 1: // deep nesting
		d := t.Range(2, 40)
		if t.Chance(1, 5) {
			// around the widths a scope stack could be packed into
			d = []int{31, 32, 33, 63, 64, 65, 66, 127, 128, 129, 255, 256, 257, 513, 1025}[t.Intn(15)] + t.Intn(3)
			if t.Chance(1, 12) {
				// the deepest nesting encoding/json accepts is 10000
				d = []int{2047, 4096, 9998, 9999, 10000}[t.Intn(5)]
			}
		}
		for i := 0; i < d; i++ {
			if t.Bool() {
				b = append(b, '[')
				if t.Chance(1, 3) {
					b = g.Scalar(b)
					b = append(b, ',')
				}
			} else {
				b = append(b, '{')
				if t.Chance(1, 3) {
					b = g.Key(b)
					b = append(b, ':')
					b = g.Value(b, t.Intn(20), 5)
					b = append(b, ',')
				}
				b = g.Key(b)
				b = append(b, ':')
			}
		}
		b = g.Scalar(b)
		// close in reverse order: recompute from the opened delimiters
		var open []byte
		inStr := false
		for i := 0; i < len(b); i++ {
			c := b[i]
			if inStr {
				if c == '\\' {
					i++
				} else if c == '"' {
					inStr = false
				}
				continue
			}
			switch c {
			case '"':
				inStr = true
			case '[', '{':
				open = append(open, c)
			case ']', '}':
				open = open[:len(open)-1]
			}
		}
		for i := len(open) - 1; i >= 0; i-- {
			if t.Chance(1, 4) {
				// a sibling after the nested container: the pattern that exposes
				// sibling-counter and key-flag bugs
				if open[i] == '[' {
					b = append(b, ',')
					b = g.Scalar(b)
				} else {
					b = append(b, ',')
					b = g.Key(b)
					b = append(b, ':')
					b = g.Scalar(b)
				}
			}
			if open[i] == '[' {
				b = append(b, ']')
			} else {
				b = append(b, '}')
			}
		}
	case 2: // empties inside non-empties, keys after nested objects
		b = append(b, '[')
		n := t.Range(1, 6)
		for i := 0; i < n; i++ {
			if i > 0 {
				b = append(b, ',')
			}
			switch t.Intn(6) {
			case 0:
				b = append(b, "{}"...)
			case 1:
				b = append(b, "[]"...)
			case 2:
				b = append(b, `{"a":{},"b":1}`...)
			case 3:
				b = append(b, `{"a":[{}],"b":[[]],"c":{"d":{}}}`...)
			case 4:
				b = g.Scalar(b)
			default:
				b = g.Value(b, t.Intn(60), 2)
			}
		}
		b = append(b, ']')
	default:
		b = g.Scalar(b)
	}
	if t.Chance(1, 4) {
		b = g.WS(b, t.Range(1, 3))
	}
	if t.Chance(1, 8) {
		b = c17BadUTF8(t, b)
	}
	return b
}

// c17BadUTF8 puts invalid UTF-8 (a stray 0xff, a truncated sequence, an encoded
// surrogate half, an overlong form) inside a string of the document, which
// stays valid JSON for encoding/json: the decoded string has U+FFFD there.
func c17BadUTF8(t *tape.Tape, doc []byte) []byte {
	var quotes []int
	in := false
	for i := 0; i < len(doc); i++ {
		switch {
		case in && doc[i] == '\\':
			i++
		case doc[i] == '"':
			if !in {
				quotes = append(quotes, i)
			}
			in = !in
		}
	}
	if len(quotes) == 0 {
		return doc
	}
	at := quotes[t.Intn(len(quotes))] + 1
	bad := [][]byte{{0xff}, {0xc3}, {0xe2, 0x82}, {0xed, 0xa0, 0x80}, {0xc0, 0xaf}, {0xf4, 0x90, 0x80, 0x80}, {0x80}}[t.Intn(7)]
	out := append([]byte(nil), doc[:at]...)
	// sometimes next to valid multi-byte text, a correctly encoded U+FFFD included
	// (what the invalid bytes are replaced by must not be confused with it)
	valid := []string{"", "", "\ufffd", "\u00e9", "\U0001F600", "a"}
	out = append(out, valid[t.Intn(len(valid))]...)
	out = append(out, bad...)
	out = append(out, valid[t.Intn(len(valid))]...)
	return append(out, doc[at:]...)
}

var c17Behind = []byte(`"],"k":"v\\"}] 12345 "`)

// c17SameShape returns doc with the lower-case letters inside its strings (outside
// escapes) and its digits 1..8 replaced by others of the same kind.
func c17SameShape(t *tape.Tape, doc []byte) []byte {
	b := append([]byte(nil), doc...)
	in := false
	seed := t.Intn(1 << 16)
	for i := 0; i < len(b); i++ {
		c := b[i]
		switch {
		case in && c == '\\':
			if i+1 < len(b) && b[i+1] == 'u' {
				i += 5
			} else {
				i++
			}
		case c == '"':
			in = !in
		case in && c >= 'a' && c <= 'y' && (seed>>(uint(i)%13))&1 == 1:
			b[i] = c + 1
		case !in && c >= '1' && c <= '8' && (seed>>(uint(i)%11))&1 == 1:
			b[i] = c + 1
		}
	}
	return b
}

func c17Break(t *tape.Tape, doc []byte) []byte {
	b := append([]byte(nil), doc...)
	if len(b) == 0 {
		return []byte("]")
	}
	switch t.Pick(3, 3, 2, 2, 2, 1) {
	case 0: // truncate
		return b[:t.Intn(len(b))]
	case 1: // swap / replace a structural character
		for try := 0; try < 8; try++ {
			i := t.Intn(len(b))
			switch b[i] {
			case ']':
				b[i] = '}'
				return b
			case '}':
				b[i] = ']'
				return b
			case '[':
				b[i] = '{'
				return b
			case ',':
				b[i] = ':'
				return b
			case ':':
				b[i] = ','
				return b
			}
		}
		return append(b, ']')
	case 2: // delete a byte
		i := t.Intn(len(b))
		return append(b[:i], b[i+1:]...)
	case 3: // insert a stray delimiter
		i := t.Intn(len(b) + 1)
		c := "]}[{,:\"x"[t.Intn(8)]
		return append(b[:i], append([]byte{c}, b[i:]...)...)
	case 4: // extra closers at the end
		n := t.Range(1, 3)
		for i := 0; i < n; i++ {
			b = append(b, "]}"[t.Intn(2)])
		}
		return b
	default: // random bytes
		n := t.Range(1, 24)
		r := make([]byte, n)
		for i := range r {
			const alphabet = "[]{},:\"\\ 0123456789-+.eEtrufalsn\x00\xff"
			r[i] = alphabet[t.Intn(len(alphabet))]
		}
		return r
	}
}

func c17GenScenario(r *core.Run) *c17Scenario {
	t := r.T
	sc := &c17Scenario{}
	long := r.Tier == "thorough" && t.Chance(1, 3)
	ntasks := t.Pick(0, 3, 3, 2, 2)
	if ntasks == 0 {
		ntasks = 1
	}
	pInvalid := t.Range(1, 6) // of 10
	doc := func() []byte {
		d := c17GenDoc(t)
		if t.Intn(10) < pInvalid {
			d = c17Break(t, d)
		}
		return d
	}
	for i := 0; i < ntasks; i++ {
		var steps []c17Step
		n := t.Range(2, 10)
		if long {
			n = t.Range(10, 30)
		}
		live := [2]bool{}
		var lastDoc [2][]byte
		for j := 0; j < n; j++ {
			k := t.Intn(2)
			if !live[k] {
				steps = append(steps, c17Step{Op: "new", Tok: k, Doc: doc()})
				lastDoc[k] = steps[len(steps)-1].Doc
				live[k] = true
				continue
			}
			switch t.Pick(4, 4, 3, 1) {
			case 0:
				steps = append(steps, c17Step{Op: "next", Tok: k, N: t.Range(1, 12)})
			case 1:
				steps = append(steps, c17Step{Op: "drain", Tok: k})
			case 2:
				d := doc()
				if lastDoc[k] != nil && t.Chance(1, 3) {
					// a record of the same shape as the previous document of this
					// tokenizer: same length, same token boundaries, other letters
					d = c17SameShape(t, lastDoc[k])
				}
				steps = append(steps, c17Step{Op: "reset", Tok: k, Doc: d})
				lastDoc[k] = d
			default:
				steps = append(steps, c17Step{Op: "abandon", Tok: k})
				live[k] = false
			}
		}
		// finish what is still live, most of the time
		for k := 0; k < 2; k++ {
			if live[k] && t.Chance(2, 3) {
				steps = append(steps, c17Step{Op: "drain", Tok: k})
			}
		}
		sc.Tasks = append(sc.Tasks, steps)
	}
	return sc
}

// tokState is the harness-side state of one tokenizer slot of one task.
type tokState struct {
	tok    *json.Tokenizer
	d      *c17Doc
	pos    int // tokens consumed
	calls  int // Next calls on this tokenisation
	done   bool
	errSet bool
	after  int
	reused bool
	in     []byte
}

type c17Kept struct {
	got  []byte
	want string
}

// c17Within reports whether b lies inside buf's backing array (a view of the input,
// which the caller overwrites itself with the next document).
func c17Within(b, buf []byte) bool {
	if len(b) == 0 || cap(buf) == 0 {
		return false
	}
	full := buf[:cap(buf)]
	p, q := uintptr(unsafe.Pointer(&b[0])), uintptr(unsafe.Pointer(&full[0]))
	return p >= q && p < q+uintptr(len(full))
}

// checkKept looks again at the String() results kept so far.
func (tr *c17TaskRes) checkKept(when string) {
	if tr.fail != "" {
		return
	}
	for _, k := range tr.kept {
		if string(k.got) != k.want {
			tr.failKey = "string-result-changed"
			tr.fail = fmt.Sprintf("%s: a slice returned by an earlier String() call (own memory, not a view of the input) now reads %q, it was %q", when, clip(k.got, 80), k.want)
			return
		}
	}
}

type c17TaskRes struct {
	kept      []c17Kept
	fail      string
	failKey   string
	toks      int64
	tokzs     int64
	fullValid int64
	invalid   int64
	strs      int64
	nums      int64
	faults    map[string]int64
}

func runC17(r *core.Run) {
	t := r.T
	simhook.Choose = t.Intn
	simhook.ResetAll()
	simhook.SetConfig(simhook.Config{})
	simhook.TakeProbes()
	simhook.TakeViolation()

	var sc *c17Scenario
	if r.Scenario != nil {
		sc = &c17Scenario{}
		if err := stdjson.Unmarshal(r.Scenario, sc); err != nil {
			core.Harness("C17 scenario: %v", err)
		}
	} else {
		sc = c17GenScenario(r)
	}
	if len(sc.Tasks) > simhook.MaxTasks {
		sc.Tasks = sc.Tasks[:simhook.MaxTasks]
	}
	// documents and models (controller, before the concurrent phase)
	docs := map[*c17Step]*c17Doc{}
	nsteps := 0
	for i := range sc.Tasks {
		for j := range sc.Tasks[i] {
			st := &sc.Tasks[i][j]
			nsteps++
			r.SigAdd(st.Op)
			if st.Op == "new" || st.Op == "reset" {
				d := &c17Doc{doc: st.Doc}
				d.valid = stdjson.Valid(st.Doc)
				if d.valid && !utf8.Valid(st.Doc) {
					r.Probe("valid-document-with-invalid-utf8-in-a-string")
				}
				if d.valid {
					d.model, d.maxDep = c17Model(st.Doc)
					if d.maxDep >= 8 {
						r.Probe("depth>=8")
					}
					if d.maxDep >= 32 {
						r.Probe("depth>=32")
					}
					if d.maxDep >= 65 {
						r.Probe("depth>=65")
					}
					if d.maxDep >= 257 {
						r.Probe("depth>=257")
					}
					if len(d.model) >= 2*65536 {
						r.Probe("siblings>=65536")
					}
					if bytes.Contains(st.Doc, []byte("{},")) || bytes.Contains(st.Doc, []byte("[],")) || bytes.Contains(st.Doc, []byte(",{}")) {
						r.Probe("empty-container-inside-non-empty")
					}
					if bytes.Contains(st.Doc, []byte(`},"`)) {
						r.Probe("key-after-nested-object")
					}
				} else {
					r.Fault("invalid-document")
				}
				docs[st] = d
				r.SigAddBytes(st.Doc)
			}
		}
	}
	cfg := schedConfig(t, 20*nsteps)
	r.Fault("pool-policy:" + poolPolicyNames[cfg.PoolPolicy[0]])
	simhook.SetConfig(cfg)

	results := make([]c17TaskRes, len(sc.Tasks))
	res := simhook.Run(len(sc.Tasks), cfg, func(task int) {
		tr := &results[task]
		tr.faults = map[string]int64{}
		var slots [2]tokState
		// each tokenizer of the task is fed from one buffer of its own: the same
		// address with new content at every new document
		var arenas [2][]byte
		loads := 0
		load := func(k int, doc []byte) []byte {
			if cap(arenas[k]) < len(doc) {
				arenas[k] = make([]byte, 2*len(doc)+64)
			}
			b := arenas[k][:len(doc):len(doc)]
			copy(b, doc)
			loads++
			if loads%3 == 0 && cap(arenas[k]) >= len(doc)+len(c17Behind) {
				// a window into a larger buffer: more bytes of the caller's, a closing
				// quote first, lie behind len(b) inside the capacity; they are not input
				b = arenas[k][:len(doc)]
				copy(arenas[k][len(doc):], c17Behind)
			}
			return b
		}
		for j := range sc.Tasks[task] {
			st := &sc.Tasks[task][j]
			k := st.Tok & 1
			s := &slots[k]
			switch st.Op {
			case "new":
				in := load(k, st.Doc)
				*s = tokState{tok: json.NewTokenizer(in), d: docs[st], in: in}
				tr.tokzs++
			case "reset":
				if s.tok == nil {
					in := load(k, st.Doc)
					*s = tokState{tok: json.NewTokenizer(in), d: docs[st], in: in}
				} else {
					if s.errSet {
						tr.faults["reset-after-error"]++
					} else if !s.done && s.pos > 0 {
						tr.faults["reset-mid-document"]++
					}
					in := load(k, st.Doc)
					s.tok.Reset(in)
					*s = tokState{tok: s.tok, d: docs[st], reused: true, in: in}
					tr.checkKept("after Reset")
				}
				tr.tokzs++
			case "abandon":
				if s.tok != nil && !s.done && s.pos > 0 {
					tr.faults["abandon-with-open-scopes"]++
				}
				*s = tokState{}
			case "next", "drain":
				if s.tok == nil {
					continue
				}
				n := st.N
				if st.Op == "drain" {
					n = 1 << 30
				}
				for i := 0; i < n; i++ {
					more := c17Next(tr, s)
					if tr.fail != "" {
						return
					}
					simhook.Yield(simhook.KOp, -1)
					if !more {
						break
					}
				}
				tr.checkKept("after further tokens")
				if tr.fail != "" {
					return
				}
			}
		}
		tr.checkKept("at the end of the task")
	})
	r.Steps += int64(res.Points)
	r.SigAdd(fmt.Sprintf("%x", res.Trace))
	pr := simhook.TakeProbes()
	if pr[simhook.PPoolReuse] > 0 {
		r.Faults["stack-reused-from-pool"] += pr[simhook.PPoolReuse]
		r.NonTrivial = true
	}
	r.ProbeN("pool-reuse", pr[simhook.PPoolReuse])
	r.ProbeN("pool-cross-task-handoff", pr[simhook.PPoolCrossTask])
	if res.Switches > 0 {
		r.Faults["context-switch-between-next"] += int64(res.Switches)
		r.NonTrivial = true
	}
	for i := range results {
		tr := &results[i]
		r.ProbeN("tokens-checked", tr.toks)
		r.ProbeN("tokenisations", tr.tokzs)
		r.ProbeN("valid-tokenisations-fully-checked", tr.fullValid)
		r.ProbeN("invalid-tokenisations", tr.invalid)
		r.ProbeN("strings-with-escapes-checked", tr.strs)
		r.ProbeN("numbers-checked", tr.nums)
		for k, v := range tr.faults {
			r.Faults[k] += v
			if k == "reset-mid-document" || k == "reset-after-error" {
				r.NonTrivial = true
			}
		}
	}
	if r.WantSample {
		var ts []any
		for i := range sc.Tasks {
			var ops []string
			for _, st := range sc.Tasks[i] {
				s := fmt.Sprintf("%s#%d", st.Op, st.Tok)
				if st.Doc != nil {
					s += fmt.Sprintf(" %q", clip(st.Doc, 60))
				}
				if st.N > 0 {
					s += fmt.Sprintf(" x%d", st.N)
				}
				ops = append(ops, s)
			}
			ts = append(ts, ops)
		}
		r.Sample = map[string]any{"tasks": ts, "pool_policy": poolPolicyNames[cfg.PoolPolicy[0]], "strategy": c09ModeNames[cfg.Mode], "scheduling_points": res.Points, "context_switches": res.Switches}
	}
	// ---- oracles ---------------------------------------------------------------
	for i := 0; i < len(sc.Tasks); i++ {
		if res.Panics[i] != "" {
			if !core.PanicInLibrary(res.Panics[i]) {
				core.Harness("panic in harness code inside simulated goroutine %d: %s", i, res.Panics[i])
			}
			r.Fail("panic", panicKeyOf(res.Panics[i]), "simulated goroutine %d: %s", i, res.Panics[i])
			r.ScenarioOut = sc
			return
		}
	}
	if v := simhook.TakeViolation(); v != "" {
		r.Fail("pool-monitor", firstWord(v), "%s", v)
		r.ScenarioOut = sc
		return
	}
	for i := range results {
		if results[i].fail != "" {
			r.Fail("token-mismatch", results[i].failKey, "task %d: %s", i, results[i].fail)
			r.ScenarioOut = sc
			return
		}
	}
}

func panicKeyOf(s string) string {
	return "panic:" + numReProps.ReplaceAllString(firstLineOf(s), "N")
}

// c17Next performs one Next on the slot and checks it.  Runs inside a task:
// touches only the task's own result.
func c17Next(tr *c17TaskRes, s *tokState) (more bool) {
	fail := func(key, format string, a ...any) bool {
		if tr.fail == "" {
			tr.failKey = key
			tr.fail = fmt.Sprintf(format, a...) + fmt.Sprintf(" [document %q, token #%d, tokenizer %s]", clip(s.d.doc, 200), s.pos, map[bool]string{false: "new", true: "reset/reused"}[s.reused])
		}
		return false
	}
	tok := s.tok
	doc := s.in // the bytes the tokenizer was given (a copy of s.d.doc at the slot's address)
	if doc == nil {
		doc = s.d.doc
	}
	if !s.done && !s.errSet {
		// the bound is on reaching the end (or an error); calls made afterwards to
		// check stickiness do not count
		s.calls++
	}
	if s.calls > 2*len(doc)+8 {
		return fail("no-termination", "tokenizer did not terminate within %d Next calls", s.calls)
	}
	ok := tok.Next()
	if s.errSet {
		tr.faults["next-after-error"]++
		if ok || tok.Err == nil {
			return fail("error-not-sticky", "after Err was set, Next returned %v and Err=%v", ok, tok.Err)
		}
		s.after++
		return s.after < 3
	}
	if s.done {
		if ok {
			return fail("token-after-end", "Next returned true after the end of the document")
		}
		return false
	}
	if !ok {
		if tok.Err != nil {
			s.errSet = true
			if s.d.valid {
				return fail("error-on-valid-document", "Err=%v on a valid document after %d of %d tokens", tok.Err, s.pos, len(s.d.model))
			}
			tr.invalid++
			return true // exercise stickiness
		}
		s.done = true
		if s.d.valid {
			if s.pos != len(s.d.model) {
				return fail("tokens-missing", "tokenizer ended after %d tokens, the document has %d", s.pos, len(s.d.model))
			}
			tr.fullValid++
		} else {
			tr.invalid++
		}
		return true // one more call to check "false after the end"
	}
	// a token
	if !s.d.valid {
		s.pos++
		return true
	}
	if s.pos >= len(s.d.model) {
		return fail("extra-token", "extra token %q after the %d tokens of the document", clip(tok.Value, 40), len(s.d.model))
	}
	e := &s.d.model[s.pos]
	tr.toks++
	if !bytes.Equal(tok.Value, e.raw) {
		return fail("value", "Value %q, expected %q", clip(tok.Value, 80), clip(e.raw, 80))
	}
	// Value is the sub-slice of the input that ends Remaining() bytes before its end
	end := len(doc) - tok.Remaining()
	start := end - len(tok.Value)
	if start < 0 || end > len(doc) || len(tok.Value) == 0 || unsafe.Pointer(&tok.Value[0]) != unsafe.Pointer(&doc[start]) {
		return fail("value-position", "Value %q is not the sub-slice doc[%d:%d] (Remaining=%d)", clip(tok.Value, 40), start, end, tok.Remaining())
	}
	if byte(tok.Delim) != e.delim {
		return fail("delim", "Delim %q, expected %q", rune(tok.Delim), rune(e.delim))
	}
	if e.checkPos {
		if tok.Kind().Class() != e.class {
			return fail("kind", "Kind class %v, expected %v for %q", tok.Kind().Class(), e.class, clip(e.raw, 40))
		}
		if tok.Depth != e.depth {
			return fail("depth", "Depth %d, expected %d for %q", tok.Depth, e.depth, clip(e.raw, 40))
		}
		if tok.Index != e.index {
			return fail("index", "Index %d, expected %d for %q", tok.Index, e.index, clip(e.raw, 40))
		}
		if tok.IsKey != e.isKey {
			return fail(fmt.Sprintf("iskey:got-%v", tok.IsKey), "IsKey %v, expected %v for %q", tok.IsKey, e.isKey, clip(e.raw, 40))
		}
	}
	// RawValue predicates classify the token by its first byte
	if e.delim == 0 {
		v := tok.Value
		wantStr, wantNum := e.isStr, e.isNum
		wantTrue, wantFalse := e.isBool && e.boolVal, e.isBool && !e.boolVal
		wantNull := e.class == json.Null
		if v.String() != wantStr || v.Number() != wantNum || v.True() != wantTrue || v.False() != wantFalse || v.Null() != wantNull {
			return fail("rawvalue-predicates", "RawValue predicates (String=%v Number=%v True=%v False=%v Null=%v) do not match token %q", v.String(), v.Number(), v.True(), v.False(), v.Null(), clip(e.raw, 40))
		}
	}
	switch {
	case e.isStr:
		got := tok.String()
		if string(got) != e.str {
			return fail("string", "String() %q, expected %q", clip(got, 80), e.str)
		}
		// what String handed out is the caller's to keep: it still reads the same
		// after later tokens, later documents and Reset (looked at again in c17Kept)
		if len(got) > 0 && len(tr.kept) < 48 && !c17Within(got, doc) {
			tr.kept = append(tr.kept, c17Kept{got: got, want: e.str})
		}
		if bytes.IndexByte(e.raw, '\\') >= 0 {
			tr.strs++
		}
	case e.isNum:
		tr.nums++
		lit := string(e.raw)
		if f, err := strconv.ParseFloat(lit, 64); err == nil {
			if got := tok.Float(); math.Float64bits(got) != math.Float64bits(f) {
				return fail("float", "Float() %v, expected %v for %s", got, f, lit)
			}
		}
		if i, err := strconv.ParseInt(lit, 10, 64); err == nil {
			if got := tok.Int(); got != i {
				return fail("int", "Int() %v, expected %v for %s", got, i, lit)
			}
		}
		if u, err := strconv.ParseUint(lit, 10, 64); err == nil {
			if got := tok.Uint(); got != u {
				return fail("uint", "Uint() %v, expected %v for %s", got, u, lit)
			}
		}
	case e.isBool:
		if tok.Bool() != e.boolVal {
			return fail("bool", "Bool() %v, expected %v", tok.Bool(), e.boolVal)
		}
	}
	s.pos++
	return true
}
