package gen

import (
	"fmt"
	"math"
	"reflect"
	"strings"
	"time"

	"verifsim/tape"
)

// Codec selects the kind subset and struct-tag dialect of generated types.
type Codec int

const (
	JSON Codec = iota
	Proto
	Thrift
)

func (c Codec) String() string { return [...]string{"json", "proto", "thrift"}[c] }

// Types generates Go types ("programs") with reflect.  To bound the growth of
// the runtime's type tables over millions of runs, a generated struct shape is
// a pure function of (codec, shape number) with shape numbers below
// ShapeSpace: draw the shape number from the run's tape and build the type
// from a private tape seeded with it.
type Types struct {
	T *tape.Tape
	C Codec
	// Sparse lets proto field numbers / thrift ids have gaps and large values.
	Sparse bool
	// NoMaps suppresses map kinds (for byte-exact comparisons).
	NoMaps bool
	// Recursion targets that may be referenced through a pointer or slice.
	MaxDepth int
	named    []reflect.Type
}

const ShapeSpace = 4096

// Shape returns the struct type of shape number n for codec c.
func Shape(c Codec, n int, sparse, noMaps bool) reflect.Type {
	g := &Types{T: tape.New(tape.Mix(0x5eed, "shape-"+c.String(), uint64(n)<<2|b2u(sparse)<<1|b2u(noMaps))), C: c, Sparse: sparse, NoMaps: noMaps, MaxDepth: 3}
	return g.Struct(0)
}

func b2u(b bool) uint64 {
	if b {
		return 1
	}
	return 0
}

var (
	tBool    = reflect.TypeOf(false)
	tInt     = reflect.TypeOf(int(0))
	tInt8    = reflect.TypeOf(int8(0))
	tInt16   = reflect.TypeOf(int16(0))
	tInt32   = reflect.TypeOf(int32(0))
	tInt64   = reflect.TypeOf(int64(0))
	tUint    = reflect.TypeOf(uint(0))
	tUint8   = reflect.TypeOf(uint8(0))
	tUint16  = reflect.TypeOf(uint16(0))
	tUint32  = reflect.TypeOf(uint32(0))
	tUint64  = reflect.TypeOf(uint64(0))
	tFloat32 = reflect.TypeOf(float32(0))
	tFloat64 = reflect.TypeOf(float64(0))
	tString  = reflect.TypeOf("")
	tBytes   = reflect.TypeOf([]byte(nil))
	tAny     = reflect.TypeOf((*any)(nil)).Elem()
	tEmpty   = reflect.TypeOf(struct{}{})
)

func (g *Types) scalar() reflect.Type {
	t := g.T
	switch g.C {
	case JSON:
		return []reflect.Type{tBool, tInt, tInt8, tInt16, tInt32, tInt64, tUint, tUint8, tUint16, tUint32, tUint64, tFloat32, tFloat64, tString, tBytes, tString, tInt}[t.Intn(17)]
	case Proto:
		return []reflect.Type{tBool, tInt, tInt32, tInt64, tUint, tUint32, tUint64, tFloat32, tFloat64, tString, tBytes, tString, tInt64}[t.Intn(13)]
	default:
		return []reflect.Type{tBool, tInt8, tInt16, tInt32, tInt64, tInt, tFloat64, tString, tBytes, tString, tInt32}[t.Intn(11)]
	}
}

func (g *Types) mapKey() reflect.Type {
	t := g.T
	switch g.C {
	case JSON:
		return []reflect.Type{tString, tString, tInt, tUint8, tInt64}[t.Intn(5)]
	case Proto:
		return []reflect.Type{tString, tInt32, tInt64, tUint32, tUint64, tBool, tString}[t.Intn(7)]
	default:
		return []reflect.Type{tString, tInt32, tInt64, tInt16, tString, tBool}[t.Intn(6)]
	}
}

// Field returns a field type.
func (g *Types) Field(depth int) reflect.Type {
	t := g.T
	if depth >= g.MaxDepth {
		return g.scalar()
	}
	switch t.Pick(8, 3, 2, 2, 2, 1, 1) {
	case 0:
		return g.scalar()
	case 1: // slice
		switch t.Pick(3, 2, 1) {
		case 0:
			e := g.scalar()
			if e == tBytes && g.C == Thrift {
				e = tString
			}
			return reflect.SliceOf(e)
		case 1:
			return reflect.SliceOf(g.Struct(depth + 1))
		default:
			if g.C == Proto {
				return reflect.SliceOf(reflect.PointerTo(g.Struct(depth + 1)))
			}
			return reflect.SliceOf(reflect.SliceOf(g.scalarNoBytes()))
		}
	case 2: // map
		if g.NoMaps {
			return g.scalar()
		}
		k := g.mapKey()
		var v reflect.Type
		switch t.Pick(3, 2, 1) {
		case 0:
			v = g.scalar()
		case 1:
			v = g.Struct(depth + 1)
			if g.C == Proto && t.Bool() {
				v = reflect.PointerTo(v)
			}
		default:
			if g.C == Thrift {
				if k.Kind() == reflect.Bool {
					k = tString
				}
				v = tEmpty // a thrift set
			} else if g.C == JSON {
				v = tAny
			} else {
				v = tString
			}
		}
		return reflect.MapOf(k, v)
	case 3: // struct
		return g.Struct(depth + 1)
	case 4: // pointer
		if g.C == JSON && t.Chance(1, 3) {
			return reflect.PointerTo(g.scalar())
		}
		return reflect.PointerTo(g.Struct(depth + 1))
	case 5: // array / any
		switch g.C {
		case JSON:
			if t.Bool() {
				return tAny
			}
			return reflect.ArrayOf(t.Range(0, 4), g.scalarNoBytes())
		case Proto:
			return reflect.ArrayOf(t.Range(1, 20), tUint8)
		}
		return g.scalar()
	default:
		return g.scalar()
	}
}

func (g *Types) scalarNoBytes() reflect.Type {
	for {
		s := g.scalar()
		if s != tBytes {
			return s
		}
	}
}

// Struct builds a struct type with 1..8 fields.
func (g *Types) Struct(depth int) reflect.Type {
	t := g.T
	n := t.Pick(0, 3, 3, 3, 2, 2, 1, 1, 1)
	if n == 0 {
		n = 1
	}
	if depth == 0 && t.Chance(1, 12) {
		n = t.Range(9, 40) // wide structs: the json keyset switch at 32 fields, thrift ids beyond 64
	}
	fields := make([]reflect.StructField, 0, n)
	num := 0
	for i := 0; i < n; i++ {
		ft := g.Field(depth)
		if n > 12 {
			ft = g.scalar()
		}
		num++
		if g.Sparse {
			switch t.Pick(6, 2, 1, 1, 1) {
			case 1:
				num += t.Range(1, 5)
			case 2:
				num += t.Range(10, 70)
			case 3:
				num += t.Range(100, 2000)
			case 4:
				if g.C == Proto {
					num += t.Range(3000, 400000) // three- and four-byte tags
				} else if num < 20000 {
					num += t.Range(2000, 9000)
				}
			}
		}
		name := fmt.Sprintf("F%d", i)
		var tag string
		switch g.C {
		case JSON:
			switch t.Pick(5, 3, 2, 1, 1) {
			case 0:
			case 1:
				tag = fmt.Sprintf(`json:"f%d"`, i)
			case 2:
				tag = fmt.Sprintf(`json:"f%d,omitempty"`, i)
			case 3:
				if k := ft.Kind(); (k >= reflect.Int && k <= reflect.Float64) || k == reflect.String || k == reflect.Bool {
					tag = fmt.Sprintf(`json:"f%d,string"`, i)
				}
			case 4:
				tag = fmt.Sprintf(`json:"Key_%d"`, i)
			}
		case Proto:
			tag = protoTag(t, ft, num)
		case Thrift:
			opt := ""
			switch t.Pick(5, 2, 2) {
			case 1:
				opt = ",required"
			case 2:
				opt = ",optional"
			}
			tag = fmt.Sprintf(`thrift:"%d%s"`, num, opt)
		}
		fields = append(fields, reflect.StructField{Name: name, Type: ft, Tag: reflect.StructTag(tag)})
	}
	return reflect.StructOf(fields)
}

func protoTag(t *tape.Tape, ft reflect.Type, num int) string {
	base := ft
	for base.Kind() == reflect.Ptr {
		base = base.Elem()
	}
	wire := "bytes"
	rep := "opt"
	k := base.Kind()
	if k == reflect.Slice && base.Elem().Kind() != reflect.Uint8 {
		rep = "rep"
		k = base.Elem().Kind()
		if k == reflect.Ptr {
			k = base.Elem().Elem().Kind()
		}
	}
	switch k {
	case reflect.Bool, reflect.Int, reflect.Uint:
		wire = "varint"
	case reflect.Int32, reflect.Int64:
		wire = "varint"
		if t.Chance(1, 3) {
			if k == reflect.Int32 {
				wire = "zigzag32"
			} else {
				wire = "zigzag64"
			}
		}
	case reflect.Uint32:
		wire = "varint"
		if t.Chance(1, 3) {
			wire = "fixed32"
		}
	case reflect.Uint64:
		wire = "varint"
		if t.Chance(1, 3) {
			wire = "fixed64"
		}
	case reflect.Float32:
		wire = "fixed32"
	case reflect.Float64:
		wire = "fixed64"
	}
	if rep == "rep" && (wire == "fixed32" || wire == "fixed64" || strings.HasPrefix(wire, "zigzag")) && false {
		wire = "varint"
	}
	return fmt.Sprintf(`protobuf:"%s,%d,%s,name=f%d"`, wire, num, rep, num)
}

// ---- values -------------------------------------------------------------------

// Values fills values of generated (or static) types, boundary-biased.
type Values struct {
	T *tape.Tape
	C Codec
	// MaxMap limits map sizes (1 for byte-exact encode comparisons in proto /
	// thrift, whose map iteration order is not seedable).
	MaxMap int
	// MaxLen limits slice lengths.
	MaxLen int
	// NoNilDistinction: avoid values whose round trip legitimately changes
	// shape (nil vs empty) — unused for now.
	depth int
}

var intBounds = []int64{0, 1, -1, 2, 127, 128, -128, -129, 255, 256, 32767, 32768, -32768, 65535, 65536, math.MaxInt32, math.MinInt32, math.MaxInt32 + 1, math.MaxUint32, math.MaxInt64, math.MinInt64, 300, 1 << 21, 1<<28 - 1, 1 << 35, 1 << 49, 1<<56 - 1}

func (g *Values) int64() int64 {
	t := g.T
	switch t.Pick(3, 4, 2) {
	case 0:
		return int64(t.Intn(200)) - 100
	case 1:
		return intBounds[t.Intn(len(intBounds))]
	default:
		return int64(t.Uint64())
	}
}

func (g *Values) String() string {
	t := g.T
	j := &JSONDoc{T: t}
	n := strLens[t.Intn(len(strLens))]
	if t.Chance(1, 40) {
		n = 126 + t.Intn(4) // one-byte / two-byte length prefixes
	}
	if g.C != JSON && t.Chance(1, 500) {
		n = 16382 + t.Intn(4) // two-byte / three-byte length prefixes
	}
	switch t.Pick(4, 3, 1) {
	case 0:
		b := make([]byte, n)
		for i := range b {
			b[i] = byte('a' + t.Intn(26))
		}
		return string(b)
	case 1:
		// text with characters that need escaping / multi-byte runes
		var b []byte
		for len(b) < n {
			switch t.Pick(6, 1, 1, 1) {
			case 0:
				b = append(b, byte(' '+t.Intn(95)))
			case 1:
				b = append(b, runes[t.Intn(len(runes))]...)
			case 2:
				b = append(b, "\"\\\n\t<>&\x00\x1f"[t.Intn(9)])
			default:
				b = append(b, byte('A'+t.Intn(26)))
			}
		}
		return string(b)
	default:
		_ = j
		return ""
	}
}

var (
	timeType = reflect.TypeOf(time.Time{})
	zoneEast = time.FixedZone("", 9*3600)
	zoneWest = time.FixedZone("", -(7*3600 + 1800))
	zoneOdd  = time.FixedZone("", 3600+60)
)

func (g *Values) float() float64 {
	t := g.T
	switch t.Pick(3, 3, 2) {
	case 0:
		return float64(t.Intn(2000)-1000) / 8
	case 1:
		return []float64{0, 1, -1, 0.5, 1e21, 1e-7, 1e20, 123456789.125, math.MaxFloat32, math.SmallestNonzeroFloat32, 3.4028234e38, -2.5e-5, 1 << 53}[t.Intn(13)]
	default:
		f := math.Float64frombits(t.Uint64())
		if math.IsNaN(f) || math.IsInf(f, 0) {
			return 42.5
		}
		return f
	}
}

// Fill sets v (settable) to a generated value of its type.
func (g *Values) Fill(v reflect.Value) {
	t := g.T
	g.depth++
	defer func() { g.depth-- }()
	maxLen := g.MaxLen
	if maxLen == 0 {
		maxLen = 4
	}
	if g.depth > 6 {
		maxLen = 0
	}
	if g.C == JSON {
		switch v.Type().Name() {
		case "Number":
			if v.Kind() == reflect.String {
				v.SetString(string((&JSONDoc{T: t}).Number(nil)))
				return
			}
		case "RawMessage":
			if v.Kind() == reflect.Slice {
				v.SetBytes((&JSONDoc{T: t}).Value(nil, t.Intn(40), 3))
				return
			}
		}
	}
	switch v.Kind() {
	case reflect.Bool:
		v.SetBool(t.Bool())
	case reflect.Int, reflect.Int8, reflect.Int16, reflect.Int32, reflect.Int64:
		x := g.int64()
		bits := v.Type().Bits()
		if bits < 64 {
			x = x << (64 - bits) >> (64 - bits)
		}
		v.SetInt(x)
	case reflect.Uint, reflect.Uint8, reflect.Uint16, reflect.Uint32, reflect.Uint64, reflect.Uintptr:
		x := uint64(g.int64())
		bits := v.Type().Bits()
		if bits < 64 {
			x &= 1<<bits - 1
		}
		v.SetUint(x)
	case reflect.Float32:
		f := float64(float32(g.float()))
		if math.IsInf(f, 0) {
			f = 1.5
		}
		v.SetFloat(f)
	case reflect.Float64:
		v.SetFloat(g.float())
	case reflect.String:
		v.SetString(g.String())
	case reflect.Slice:
		if t.Chance(1, 6) {
			return // nil
		}
		n := t.Intn(maxLen + 1)
		if v.Type().Elem().Kind() == reflect.Uint8 {
			n = strLens[t.Intn(len(strLens))]
			if t.Chance(1, 30) {
				n = 125 + t.Intn(6) // around the one-byte / two-byte length prefix
			}
			if g.C != JSON && t.Chance(1, 400) {
				n = 16381 + t.Intn(5) // two-byte / three-byte
			}
			b := make([]byte, n)
			if n > 200 {
				// drawn sparsely: long values must not cost a draw per byte
				for i := 0; i < n; i += 97 {
					b[i] = byte(t.Intn(256))
				}
			} else {
				for i := range b {
					b[i] = byte(t.Intn(256))
				}
			}
			v.SetBytes(b)
			return
		}
		s := reflect.MakeSlice(v.Type(), n, n)
		for i := 0; i < n; i++ {
			g.Fill(s.Index(i))
		}
		v.Set(s)
	case reflect.Array:
		for i := 0; i < v.Len(); i++ {
			g.Fill(v.Index(i))
		}
	case reflect.Map:
		if t.Chance(1, 6) {
			return
		}
		mm := g.MaxMap
		if mm == 0 {
			mm = 3
		}
		n := t.Intn(mm + 1)
		if g.depth > 6 {
			n = 0
		}
		m := reflect.MakeMapWithSize(v.Type(), n)
		for i := 0; i < n; i++ {
			k := reflect.New(v.Type().Key()).Elem()
			g.Fill(k)
			e := reflect.New(v.Type().Elem()).Elem()
			g.Fill(e)
			m.SetMapIndex(k, e)
		}
		v.Set(m)
	case reflect.Ptr:
		if t.Chance(1, 4) || g.depth > 6 {
			return
		}
		p := reflect.New(v.Type().Elem())
		g.Fill(p.Elem())
		v.Set(p)
	case reflect.Struct:
		if v.Type() == timeType {
			// a few instants, each spelled in several zones
			inst := []time.Time{
				time.Date(2021, 3, 4, 5, 6, 7, 0, time.UTC),
				time.Date(2021, 3, 4, 5, 6, 7, 123456789, time.UTC),
				time.Date(1999, 12, 31, 23, 59, 59, 999999999, time.UTC),
			}[t.Intn(3)]
			zone := []*time.Location{time.UTC, zoneEast, zoneWest, zoneOdd}[t.Intn(4)]
			v.Set(reflect.ValueOf(inst.In(zone)))
			return
		}
		for i := 0; i < v.NumField(); i++ {
			if f := v.Type().Field(i); f.PkgPath != "" {
				if f.Anonymous && f.Type.Kind() == reflect.Struct {
					// an embedded struct whose type name is unexported: its exported
					// fields are promoted and settable
					g.Fill(v.Field(i))
				}
				continue
			}
			if t.Chance(1, 5) {
				continue // leave zero
			}
			g.Fill(v.Field(i))
		}
	case reflect.Interface:
		if g.C != JSON || v.NumMethod() != 0 {
			return
		}
		switch t.Pick(2, 2, 2, 1, 1, 1) {
		case 0:
		case 1:
			v.Set(reflect.ValueOf(g.String()))
		case 2:
			v.Set(reflect.ValueOf(g.float()))
		case 3:
			v.Set(reflect.ValueOf(t.Bool()))
		case 4:
			if g.depth < 4 {
				n := t.Intn(3)
				s := make([]any, n)
				for i := range s {
					g.Fill(reflect.ValueOf(&s[i]).Elem())
				}
				v.Set(reflect.ValueOf(s))
			}
		default:
			if g.depth < 4 {
				n := t.Intn(3)
				m := make(map[string]any, n)
				for i := 0; i < n; i++ {
					var e any
					g.Fill(reflect.ValueOf(&e).Elem())
					m[g.String()] = e
				}
				v.Set(reflect.ValueOf(m))
			}
		}
	}
}

// New returns a pointer to a freshly generated value of type rt.
func (g *Values) New(rt reflect.Type) reflect.Value {
	p := reflect.New(rt)
	g.Fill(p.Elem())
	return p
}
