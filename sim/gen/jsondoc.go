// Package gen holds the seeded workload generators: JSON documents and value
// streams here; Go types and values in types.go.
package gen

import (
	"strconv"
	"strings"

	"verifsim/tape"
)

// JSONDoc generates valid JSON texts.  It never generates: duplicate keys in one
// object, lone surrogates, invalid UTF-8, numbers outside float64 range —
// those are C02/C05 territory (input dimension), not what the simulated
// properties are about.
type JSONDoc struct {
	T *tape.Tape
	// Keys, when non-nil, is the pool of object keys to prefer (struct targets).
	keyN int
}

var wsBytes = []byte{' ', '\n', '\t', '\r'}

// WS appends n whitespace bytes.
func (g *JSONDoc) WS(b []byte, n int) []byte {
	if n <= 0 {
		return b
	}
	mode := g.T.Intn(4)
	if mode == 3 {
		// a drawn pattern of eight whitespace bytes, repeated
		var pat [8]byte
		for i := range pat {
			pat[i] = wsBytes[g.T.Intn(4)]
		}
		for i := 0; i < n; i++ {
			b = append(b, pat[i%8])
		}
		return b
	}
	for i := 0; i < n; i++ {
		switch mode {
		case 0:
			b = append(b, ' ')
		case 1:
			b = append(b, '\n')
		default:
			b = append(b, wsBytes[(i*7+mode+i/3)%4])
		}
	}
	return b
}

func (g *JSONDoc) smallWS(b []byte) []byte {
	switch g.T.Pick(6, 2, 1) {
	case 1:
		return append(b, ' ')
	case 2:
		return g.WS(b, g.T.Range(1, 3))
	}
	return b
}

// Number appends a JSON number.
func (g *JSONDoc) Number(b []byte) []byte {
	t := g.T
	switch t.Pick(4, 3, 2, 2, 1, 1) {
	case 5: // integer literal at or beyond the 64-bit limits (still exact enough for float64)
		if t.Chance(1, 3) {
			b = append(b, '-')
		}
		switch t.Intn(4) {
		case 0:
			return append(b, "9223372036854775807"...)
		case 1:
			return append(b, "9223372036854775808"...)
		case 2:
			return append(b, "18446744073709551616"...)
		}
		n := t.Range(19, 24)
		b = append(b, byte('1'+t.Intn(9)))
		for i := 1; i < n; i++ {
			b = append(b, byte('0'+t.Intn(10)))
		}
		return b
	case 0: // small int
		return strconv.AppendInt(b, int64(t.Intn(2000))-1000, 10)
	case 1: // n-digit int (<= 15 digits: exact in float64 both ways)
		n := t.Range(1, 15)
		if t.Chance(1, 4) {
			b = append(b, '-')
		}
		b = append(b, byte('1'+t.Intn(9)))
		for i := 1; i < n; i++ {
			b = append(b, byte('0'+t.Intn(10)))
		}
		return b
	case 2: // decimal
		if t.Chance(1, 4) {
			b = append(b, '-')
		}
		b = strconv.AppendInt(b, int64(t.Intn(100000)), 10)
		b = append(b, '.')
		n := t.Range(1, 12)
		for i := 0; i < n; i++ {
			b = append(b, byte('0'+t.Intn(10)))
		}
		return b
	case 3: // exponent
		if t.Chance(1, 4) {
			b = append(b, '-')
		}
		b = append(b, byte('1'+t.Intn(9)))
		if t.Bool() {
			b = append(b, '.')
			n := t.Range(1, 8)
			for i := 0; i < n; i++ {
				b = append(b, byte('0'+t.Intn(10)))
			}
		}
		if t.Bool() {
			b = append(b, 'e')
		} else {
			b = append(b, 'E')
		}
		switch t.Intn(3) {
		case 1:
			b = append(b, '+')
		case 2:
			b = append(b, '-')
		}
		return strconv.AppendInt(b, int64(t.Intn(300)), 10)
	default:
		if t.Bool() {
			return append(b, '0')
		}
		return append(b, "-0"...)
	}
}

var runes = []string{"\u00e9", "\u00df", "\u20ac", "\u65e5", "\u672c", "\U0001F600", "\U0001D11E", "\u2028", "\u2029", "\u02bc", "\ufffd", "\u0080", "\u07ff", "\u0800", "\uffff", "\U00010000", "\U0010FFFF"}
var escapes = []string{`\"`, `\\`, `\/`, `\b`, `\f`, `\n`, `\r`, `\t`, `\u00e9`, `\u0041`, `\ud83d\ude00`, `\u2028`, `\u0000`, `\ufffd`, `\uD834\uDD1E`, `\u003c`, `\udbff\udfff`, `\ud83c\udfff`, `\ud800\udc00`, `\udbff\udc00`, `\ud800\udfff`, `\ud83d\udc00`}

func init() {
	// runs of escaped backslashes of every length up to 9, alone and in front of an
	// escaped quote (odd and even runs of raw backslashes up to 19)
	for k := 2; k <= 9; k++ {
		escapes = append(escapes, strings.Repeat(`\\`, k), strings.Repeat(`\\`, k)+`\"`)
	}
}

// StringBody appends about n bytes of string content (no quotes).
func (g *JSONDoc) StringBody(b []byte, n int) []byte {
	t := g.T
	style := t.Pick(5, 3, 2) // ascii, mixed, heavy
	start := len(b)
	for len(b)-start < n {
		k := 0
		if style > 0 {
			k = t.Pick(8, 1, 1)
			if style == 2 {
				k = t.Pick(2, 2, 2)
			}
		}
		switch k {
		case 0:
			c := byte(' ' + t.Intn(95))
			if c == '"' || c == '\\' {
				c = 'x'
			}
			b = append(b, c)
		case 1:
			b = append(b, runes[t.Intn(len(runes))]...)
		default:
			b = append(b, escapes[t.Intn(len(escapes))]...)
		}
	}
	return b
}

var strLens = []int{0, 1, 2, 3, 5, 7, 8, 9, 15, 16, 17, 23, 31, 32, 33, 63, 64, 65}

func (g *JSONDoc) String(b []byte) []byte {
	n := strLens[g.T.Intn(len(strLens))]
	if g.T.Chance(1, 6) {
		n = g.T.Range(0, 200)
	}
	b = append(b, '"')
	b = g.StringBody(b, n)
	return append(b, '"')
}

func (g *JSONDoc) Key(b []byte) []byte {
	g.keyN++
	b = append(b, '"')
	if g.T.Chance(1, 5) {
		b = g.StringBody(b, g.T.Range(0, 12))
	} else {
		b = append(b, 'k')
	}
	// uniqueness suffix
	b = strconv.AppendInt(b, int64(g.keyN), 36)
	return append(b, '"')
}

func (g *JSONDoc) Literal(b []byte) []byte {
	switch g.T.Intn(3) {
	case 0:
		return append(b, "true"...)
	case 1:
		return append(b, "false"...)
	}
	return append(b, "null"...)
}

// Scalar appends a scalar.
func (g *JSONDoc) Scalar(b []byte) []byte {
	switch g.T.Pick(4, 3, 2) {
	case 0:
		return g.Number(b)
	case 1:
		return g.String(b)
	}
	return g.Literal(b)
}

// Value appends a value of roughly size bytes (size <= 0: a scalar).
func (g *JSONDoc) Value(b []byte, size, depth int) []byte {
	t := g.T
	if size <= 12 || depth > 6 {
		if size > 40 && t.Bool() {
			b = append(b, '"')
			b = g.StringBody(b, size-2)
			return append(b, '"')
		}
		if t.Chance(1, 8) {
			if t.Bool() {
				return append(b, "[]"...)
			}
			return append(b, "{}"...)
		}
		return g.Scalar(b)
	}
	switch t.Pick(4, 4, 1) {
	case 0: // array
		b = append(b, '[')
		start := len(b)
		first := true
		for len(b)-start < size-2 {
			if !first {
				b = g.smallWS(b)
				b = append(b, ',')
				b = g.smallWS(b)
			}
			first = false
			rem := size - 2 - (len(b) - start)
			b = g.Value(b, t.Intn(rem/2+1), depth+1)
		}
		return append(b, ']')
	case 1: // object
		b = append(b, '{')
		start := len(b)
		first := true
		for len(b)-start < size-2 {
			if !first {
				b = g.smallWS(b)
				b = append(b, ',')
			}
			b = g.smallWS(b)
			first = false
			b = g.Key(b)
			b = g.smallWS(b)
			b = append(b, ':')
			b = g.smallWS(b)
			rem := size - 2 - (len(b) - start)
			b = g.Value(b, t.Intn(rem/2+1), depth+1)
		}
		b = g.smallWS(b)
		return append(b, '}')
	default: // long string
		b = append(b, '"')
		b = g.StringBody(b, size-2)
		return append(b, '"')
	}
}

// Tag classes of a byte in a valid JSON stream.
const (
	TagWS     = 'w' // whitespace
	TagNum    = 'n'
	TagStr    = 's' // string body or quote
	TagEsc    = 'e' // inside an escape sequence (after the backslash)
	TagRune   = 'u' // continuation byte of a multi-byte rune
	TagLit    = 'l'
	TagPunct  = 'p'
	TagNumEnd = 'N' // first byte after a number (whatever it is) — for bias only
)

// Tags classifies every byte of a valid JSON stream; cont[i] is true when
// byte i continues the token that byte i-1 belongs to (a cut at i is "inside").
func Tags(s []byte) (tag []byte, cont []bool) {
	tag = make([]byte, len(s))
	cont = make([]bool, len(s))
	for i := 0; i < len(s); {
		c := s[i]
		switch {
		case c == ' ' || c == '\n' || c == '\t' || c == '\r':
			tag[i] = TagWS
			i++
		case c == '"':
			tag[i] = TagStr
			i++
			for i < len(s) && s[i] != '"' {
				cont[i] = true
				if s[i] == '\\' {
					tag[i] = TagStr
					i++
					n := 1
					if i < len(s) && s[i] == 'u' {
						n = 5
					}
					for j := 0; j < n && i < len(s); j++ {
						tag[i] = TagEsc
						cont[i] = true
						i++
					}
					continue
				}
				if s[i] >= 0x80 && s[i] < 0xC0 {
					tag[i] = TagRune
				} else {
					tag[i] = TagStr
				}
				i++
			}
			if i < len(s) {
				tag[i] = TagStr
				cont[i] = true
				i++
			}
		case c == '-' || (c >= '0' && c <= '9'):
			tag[i] = TagNum
			i++
			for i < len(s) && (s[i] == '-' || s[i] == '+' || s[i] == '.' || s[i] == 'e' || s[i] == 'E' || (s[i] >= '0' && s[i] <= '9')) {
				tag[i] = TagNum
				cont[i] = true
				i++
			}
		case c == 't' || c == 'f' || c == 'n':
			tag[i] = TagLit
			i++
			for i < len(s) && s[i] >= 'a' && s[i] <= 'z' {
				tag[i] = TagLit
				cont[i] = true
				i++
			}
		default:
			tag[i] = TagPunct
			i++
		}
	}
	return
}
