// worker executes a range of simulated runs of one property in one OS process.
package main

import (
	"encoding/binary"
	"encoding/json"
	"flag"
	"fmt"
	"os"
	"regexp"
	"runtime"
	"runtime/debug"
	"strings"
	"sync/atomic"
	"syscall"
	"time"

	"verifsim/core"
	_ "verifsim/props"
	"verifsim/tape"
)

type violationRec struct {
	Index  uint64   `json:"index"`
	Class  string   `json:"class"`
	Key    string   `json:"key"`
	Detail string   `json:"detail"`
	Tape   []uint32 `json:"tape"`
	Trace  []string `json:"trace,omitempty"`
	Sample any      `json:"sample,omitempty"`
}

type output struct {
	Property    string            `json:"property"`
	Runs        uint64            `json:"runs"`
	Evaluations int64             `json:"evaluations"`
	NonTrivial  uint64            `json:"nontrivial"`
	Steps       int64             `json:"steps"`
	Faults      map[string]int64  `json:"faults"`
	Probes      map[string]int64  `json:"probes"`
	Violations  []violationRec    `json:"violations"`
	ViolCount   map[string]int64  `json:"viol_count"`
	Samples     []any             `json:"samples"`
	TraceHash   map[string]string `json:"trace_hash,omitempty"`
	KnownHits   map[string]int64  `json:"known_hits,omitempty"`
	Completed   bool              `json:"completed"`
}

// ReplayFile is the on-disk format named by VIOLATION lines.
type ReplayFile struct {
	Property string   `json:"property"`
	Class    string   `json:"class"`
	Key      string   `json:"key"`
	Detail   string   `json:"detail"`
	Seed     uint64   `json:"seed"`
	Index    uint64   `json:"run_index"`
	Tier     string   `json:"tier"`
	Tape     []uint32 `json:"tape"`
	// Scenario is the literal, property-specific form of the run; a file with
	// a scenario and no tape is executed from the scenario.
	Scenario json.RawMessage `json:"scenario,omitempty"`
	Decoded  any             `json:"decoded,omitempty"`
	Trace    []string        `json:"trace,omitempty"`
	Note     string          `json:"note,omitempty"`
	// RangeFrom, when present (and there is neither tape nor scenario), makes the
	// replay execute the runs RangeFrom .. Index-1 of the seed first, in this
	// process: a crash that needs the memory the earlier runs of its worker left
	// behind (a library that writes outside its allocations) reproduces that way.
	RangeFrom *uint64 `json:"range_from,omitempty"`
}

var mirrorBuf []byte

var current atomic.Int64
var currentStart atomic.Int64

var numRe = regexp.MustCompile(`0x[0-9a-f]+|[0-9]+`)

func panicKey(p any, stack string) string {
	msg := fmt.Sprint(p)
	if len(msg) > 120 {
		msg = msg[:120]
	}
	msg = numRe.ReplaceAllString(msg, "N")
	// first frame inside the library
	fn := ""
	for _, line := range strings.Split(stack, "\n") {
		if strings.HasPrefix(line, "github.com/segmentio/encoding/") && !strings.Contains(line, "verifshim") {
			fn = line
			if i := strings.LastIndex(fn, "("); i > 0 {
				fn = fn[:i]
			}
			fn = strings.TrimPrefix(fn, "github.com/segmentio/encoding/")
			break
		}
	}
	return "panic:" + msg + "@" + fn
}

// execute runs one run, converting escaped panics into violations.
func execute(p *core.Property, r *core.Run) {
	defer func() {
		if e := recover(); e != nil {
			if he, ok := e.(core.HarnessError); ok {
				fmt.Fprintf(os.Stderr, "HARNESS-ERROR property=%s run=%d: %s\n", p.ID, r.Index, he.Msg)
				os.Exit(3)
			}
			st := string(debug.Stack())
			if !core.PanicInLibrary(st) {
				fmt.Fprintf(os.Stderr, "HARNESS-ERROR property=%s run=%d: panic in harness code: %v\n%s\n", p.ID, r.Index, e, clipStack(st))
				os.Exit(3)
			}
			if r.V == nil {
				r.V = &core.Violation{Class: "panic", Key: panicKey(e, st), Detail: fmt.Sprintf("panic: %v\n%s", e, clipStack(st))}
			}
		}
	}()
	p.Run(r)
}

func clipStack(s string) string {
	lines := strings.Split(s, "\n")
	var keep []string
	for _, l := range lines {
		if strings.Contains(l, "segmentio/encoding") || strings.Contains(l, "verifsim/props") {
			keep = append(keep, strings.TrimSpace(l))
		}
		if len(keep) >= 16 {
			break
		}
	}
	return strings.Join(keep, "\n")
}

func main() {
	var (
		prop     = flag.String("prop", "", "property id")
		tier     = flag.String("tier", "quick", "quick|thorough")
		seed     = flag.Uint64("seed", 1, "VERIF_SEED")
		from     = flag.Uint64("from", 0, "first run index")
		to       = flag.Uint64("to", 1, "one past the last run index")
		status   = flag.String("status", "", "status file (run index in flight)")
		out      = flag.String("out", "", "output json")
		replay   = flag.String("replay", "", "replay file to execute instead of a range")
		shrink   = flag.Bool("shrink", false, "with -replay: minimise the tape in-process and write the result to -out")
		trace    = flag.Bool("trace", false, "record event-log hashes per run")
		describe = flag.Bool("describe", false, "print the property table as JSON")
		nsamples = flag.Int("samples", 3, "decoded samples to keep")
		watchdog = flag.Int("watchdog", 120, "seconds a single run may take before the worker exits 67")
		budget   = flag.Int("budget", 400, "shrink budget (executions)")
		known    = flag.String("known", "", "known-findings file: listed (status known) divergences are counted and resynchronised instead of ending the run")
		tapemap  = flag.String("tapemap", "", "with -replay: mirror every draw into this memory-mapped file (survives a crash)")
		dump     = flag.String("dump", "", "debug: write the tape and trace of every run to <dump>-<idx>.json")
	)
	flag.Parse()

	if *describe {
		type desc struct {
			ID, Level, Engine, Rule  string
			Quick, Thorough          uint64
			FaultKinds, ProbeNames   []string
			Real, Model, Assumptions []string
			Race, Sched              bool
		}
		var ds []desc
		for _, id := range core.IDs() {
			p := core.Lookup(id)
			ds = append(ds, desc{p.ID, p.Level, p.Engine, p.Rule, p.Quick, p.Thorough, p.FaultKinds, p.ProbeNames, p.Real, p.Model, p.Assumptions, p.Race, p.Sched})
		}
		json.NewEncoder(os.Stdout).Encode(ds)
		return
	}

	p := core.Lookup(*prop)
	if p == nil {
		fmt.Fprintf(os.Stderr, "worker: unknown property %q (built with: %v)\n", *prop, core.IDs())
		os.Exit(3)
	}
	if p.Setup != nil {
		p.Setup()
	}

	// watchdog: harness safety only; never part of a decision or a log.
	go func() {
		for {
			time.Sleep(2 * time.Second)
			st := currentStart.Load()
			if st != 0 && time.Now().Unix()-st > int64(*watchdog) {
				fmt.Fprintf(os.Stderr, "WATCHDOG property=%s run=%d exceeded %ds\n", p.ID, current.Load(), *watchdog)
				os.Exit(67)
			}
		}
	}()

	if *known != "" {
		if b, err := os.ReadFile(*known); err == nil {
			var ff struct {
				Findings []struct{ Status, Property, Class, Key string }
			}
			if err := json.Unmarshal(b, &ff); err != nil {
				fmt.Fprintln(os.Stderr, "worker: known findings:", err)
				os.Exit(3)
			}
			for _, f := range ff.Findings {
				if f.Status == "known" && f.Property == p.ID {
					core.KnownKeys[f.Class+"|"+f.Key] = true
				}
			}
		}
	}

	if *replay != "" {
		if *tapemap != "" {
			f, err := os.OpenFile(*tapemap, os.O_RDWR|os.O_CREATE|os.O_TRUNC, 0o644)
			if err == nil {
				const size = 8 << 20
				f.Truncate(size)
				if m, err := syscall.Mmap(int(f.Fd()), 0, size, syscall.PROT_READ|syscall.PROT_WRITE, syscall.MAP_SHARED); err == nil {
					mirrorBuf = m
				}
			}
		}
		doReplay(p, *replay, *shrink, *out, *budget)
		return
	}
	var sf *os.File
	if *status != "" {
		var err error
		sf, err = os.OpenFile(*status, os.O_CREATE|os.O_WRONLY, 0o644)
		if err != nil {
			fmt.Fprintln(os.Stderr, "worker:", err)
			os.Exit(3)
		}
	}
	o := &output{Property: p.ID, Faults: map[string]int64{}, Probes: map[string]int64{}, ViolCount: map[string]int64{}}
	if *trace {
		o.TraceHash = map[string]string{}
	}
	var sigs []byte
	seenKey := map[string]bool{}
	var sbuf [24]byte
	for idx := *from; idx < *to; idx++ {
		if sf != nil {
			s := fmt.Appendf(sbuf[:0], "%-20d\n", idx)
			sf.WriteAt(s, 0)
		}
		current.Store(int64(idx))
		currentStart.Store(time.Now().Unix())
		r := core.NewRun(tape.New(tape.Mix(*seed, p.ID, idx)), *tier, idx, *seed)
		r.WantSample = len(o.Samples) < *nsamples
		r.TraceOn = *trace
		execute(p, r)
		currentStart.Store(0)
		o.Runs++
		if r.Evaluations > 0 {
			o.Evaluations += r.Evaluations
		} else {
			o.Evaluations++
		}
		o.Steps += r.Steps
		for k, v := range r.Faults {
			o.Faults[k] += v
		}
		for k, v := range r.Probes {
			o.Probes[k] += v
		}
		if r.NonTrivial {
			o.NonTrivial++
			sigs = binary.LittleEndian.AppendUint64(sigs, r.Sig())
		}
		if r.WantSample && r.Sample != nil {
			r.Sample["run_index"] = idx
			o.Samples = append(o.Samples, r.Sample)
		}
		if *dump != "" {
			jb, _ := json.Marshal(map[string]any{"tape": r.T.Record(), "trace": r.Trace, "sample": r.Sample})
			os.WriteFile(fmt.Sprintf("%s-%d.json", *dump, idx), jb, 0o644)
		}
		if *trace {
			o.TraceHash[fmt.Sprint(idx)] = fmt.Sprintf("%016x/%d", r.EventHash(), r.T.Len())
		}
		for k, v := range r.KnownHits {
			if o.KnownHits == nil {
				o.KnownHits = map[string]int64{}
			}
			o.KnownHits[k] += v
		}
		if r.V != nil {
			ck := r.V.Class + "|" + r.V.Key
			o.ViolCount[ck]++
			if !seenKey[ck] && len(o.Violations) < 40 {
				seenKey[ck] = true
				o.Violations = append(o.Violations, violationRec{Index: idx, Class: r.V.Class, Key: r.V.Key, Detail: r.V.Detail,
					Tape: append([]uint32(nil), r.T.Record()...)})
			}
		}
	}
	o.Completed = true
	writeOut(*out, o, sigs)
}

func writeOut(path string, o *output, sigs []byte) {
	if path == "" {
		json.NewEncoder(os.Stdout).Encode(o)
		return
	}
	b, _ := json.Marshal(o)
	if err := os.WriteFile(path, b, 0o644); err != nil {
		fmt.Fprintln(os.Stderr, "worker:", err)
		os.Exit(3)
	}
	if err := os.WriteFile(path+".sigs", sigs, 0o644); err != nil {
		fmt.Fprintln(os.Stderr, "worker:", err)
		os.Exit(3)
	}
}

func runTape(p *core.Property, rf *ReplayFile, tp []uint32, trace bool) *core.Run {
	tpe := tape.Replay(tp)
	if len(rf.Tape) == 0 && len(rf.Scenario) == 0 {
		// a run whose worker process died has no recorded tape: its tape is a
		// pure function of (seed, property, run index)
		tpe = tape.New(tape.Mix(rf.Seed, p.ID, rf.Index))
	}
	if mirrorBuf != nil {
		tpe.Mirror(mirrorBuf)
	}
	current.Store(int64(rf.Index))
	currentStart.Store(time.Now().Unix()) // arms the watchdog for replays too
	defer currentStart.Store(0)
	r := core.NewRun(tpe, rf.Tier, rf.Index, rf.Seed)
	if len(rf.Tape) == 0 && len(rf.Scenario) > 0 {
		r.Scenario = rf.Scenario
	}
	r.WantSample = trace
	r.TraceOn = trace
	execute(p, r)
	runtime.GC()
	return r
}

func doReplay(p *core.Property, path string, shrink bool, out string, budget int) {
	b, err := os.ReadFile(path)
	if err != nil {
		fmt.Fprintln(os.Stderr, "worker:", err)
		os.Exit(3)
	}
	var rf ReplayFile
	if err := json.Unmarshal(b, &rf); err != nil {
		fmt.Fprintln(os.Stderr, "worker: bad replay file:", err)
		os.Exit(3)
	}
	if rf.Tier == "" {
		rf.Tier = "quick"
	}
	// A replay treats listed known findings like the sweep does (count,
	// resynchronise, go on), so that a violation found behind one reproduces —
	// except when the file being replayed is the witness of that very finding.
	if core.KnownKeys[rf.Class+"|"+rf.Key] {
		core.KnownKeys = map[string]bool{}
	}
	tp := rf.Tape
	if shrink && len(tp) > 0 {
		same := func(r *core.Run) bool { return r.V != nil && r.V.Class == rf.Class && r.V.Key == rf.Key }
		tp = minimise(tp, budget, func(c []uint32) bool { return same(runTape(p, &rf, c, false)) })
	}
	if rf.RangeFrom != nil && len(rf.Tape) == 0 && len(rf.Scenario) == 0 {
		for idx := *rf.RangeFrom; idx < rf.Index; idx++ {
			pre := rf
			pre.Index = idx
			runTape(p, &pre, nil, false)
		}
	}
	r := runTape(p, &rf, tp, true)
	res := ReplayFile{Property: p.ID, Seed: rf.Seed, Index: rf.Index, Tier: rf.Tier, Tape: r.T.Record(), Decoded: r.Sample, Trace: r.Trace, RangeFrom: rf.RangeFrom}
	if r.V != nil {
		res.Class, res.Key, res.Detail = r.V.Class, r.V.Key, r.V.Detail
	}
	if r.Scenario != nil {
		res.Scenario = r.Scenario
	} else if r.ScenarioOut != nil {
		res.Scenario, _ = json.Marshal(r.ScenarioOut)
	}
	if len(res.Trace) > 400 {
		res.Trace = append(res.Trace[:200:200], res.Trace[len(res.Trace)-200:]...)
	}
	jb, _ := json.MarshalIndent(res, "", " ")
	if out != "" {
		os.WriteFile(out, jb, 0o644)
	}
	if r.V != nil {
		fmt.Printf("REPLAY-VIOLATION property=%s class=%s key=%q\n%s\n", p.ID, r.V.Class, r.V.Key, r.V.Detail)
		os.Exit(1)
	}
	fmt.Printf("REPLAY-OK property=%s (no violation)\n", p.ID)
}

// minimise shrinks a tape while ok(tape) stays true: delete blocks, zero
// entries, halve entries.  Generator-agnostic: any edited tape is valid.
func minimise(tp []uint32, budget int, ok func([]uint32) bool) []uint32 {
	cur := append([]uint32(nil), tp...)
	deadline := time.Now().Add(40 * time.Second) // harness budget only; never part of a verdict
	try := func(c []uint32) bool {
		if budget <= 0 || time.Now().After(deadline) {
			budget = 0
			return false
		}
		budget--
		if ok(c) {
			cur = append(cur[:0:0], c...)
			return true
		}
		return false
	}
	// truncate
	for n := len(cur) / 2; n >= 1; n /= 2 {
		for len(cur) > n && try(cur[:len(cur)-n]) {
		}
	}
	for pass := 0; pass < 3 && budget > 0; pass++ {
		changed := false
		// delete blocks
		for size := len(cur) / 2; size >= 1; size /= 2 {
			for i := 0; i+size <= len(cur) && budget > 0; {
				c := append(append([]uint32(nil), cur[:i]...), cur[i+size:]...)
				if try(c) {
					changed = true
				} else {
					i += size
				}
			}
		}
		// zero blocks, then single entries; halve
		for size := 8; size >= 1; size /= 2 {
			for i := 0; i+size <= len(cur) && budget > 0; i += size {
				allZero := true
				for _, v := range cur[i : i+size] {
					if v != 0 {
						allZero = false
					}
				}
				if allZero {
					continue
				}
				c := append([]uint32(nil), cur...)
				for j := i; j < i+size; j++ {
					c[j] = 0
				}
				if try(c) {
					changed = true
				} else if size == 1 {
					c[i] = cur[i] / 2
					if c[i] != cur[i] && try(c) {
						changed = true
					}
				}
			}
		}
		if !changed {
			break
		}
	}
	return cur
}
