// supervisor spawns worker processes over a fixed set of run indices, attributes
// crashes to the run in flight, confirms, minimises and reports violations,
// honours the known-findings file and writes the evidence file.
//
// Exit status: 0 property held (KNOWN-FINDING lines allowed); 1 VIOLATION
// printed; 2 harness / build trouble (never a verdict).
package main

import (
	"bytes"
	"encoding/binary"
	"encoding/json"
	"flag"
	"fmt"
	"os"
	"os/exec"
	"path/filepath"
	"runtime"
	"sort"
	"strconv"
	"strings"
	"sync"
	"time"
)

type violationRec struct {
	Index  uint64   `json:"index"`
	Class  string   `json:"class"`
	Key    string   `json:"key"`
	Detail string   `json:"detail"`
	Tape   []uint32 `json:"tape"`
}

type workerOut struct {
	Property    string            `json:"property"`
	Runs        uint64            `json:"runs"`
	Evaluations int64             `json:"evaluations"`
	NonTrivial  uint64            `json:"nontrivial"`
	Steps       int64             `json:"steps"`
	Faults      map[string]int64  `json:"faults"`
	Probes      map[string]int64  `json:"probes"`
	Violations  []violationRec    `json:"violations"`
	ViolCount   map[string]int64  `json:"viol_count"`
	Samples     []any             `json:"samples"`
	TraceHash   map[string]string `json:"trace_hash"`
	KnownHits   map[string]int64  `json:"known_hits"`
	Completed   bool              `json:"completed"`
}

type replayFile struct {
	Property string          `json:"property"`
	Class    string          `json:"class"`
	Key      string          `json:"key"`
	Detail   string          `json:"detail"`
	Seed     uint64          `json:"seed"`
	Index    uint64          `json:"run_index"`
	Tier     string          `json:"tier"`
	Tape     []uint32        `json:"tape"`
	Scenario json.RawMessage `json:"scenario,omitempty"`
	Decoded  any             `json:"decoded,omitempty"`
	Trace    []string        `json:"trace,omitempty"`
	Note     string          `json:"note,omitempty"`
	// RangeFrom: see the worker's ReplayFile
	RangeFrom *uint64 `json:"range_from,omitempty"`
}

type desc struct {
	ID, Level, Engine, Rule  string
	Quick, Thorough          uint64
	FaultKinds, ProbeNames   []string
	Real, Model, Assumptions []string
	Race, Sched              bool
}

type finding struct {
	Status   string `json:"status"` // known | fixed
	Property string `json:"property"`
	Class    string `json:"class"`
	Key      string `json:"key"`
	Witness  string `json:"witness"` // replay file, relative to /verif
	What     string `json:"what"`
	Commit   string `json:"commit,omitempty"`
}

type findingsFile struct {
	Findings []finding `json:"findings"`
}

const maxReported = 6

var (
	workerBin string
	workDir   string
	verifDir  string
	propID    string
	tier      string
	seed      uint64
	wdSecs    int
)

var (
	inSweep      bool
	deferHarness bool
	harnessMu    sync.Mutex
	harnessErrs  []string
)

func die(format string, a ...any) {
	fmt.Fprintf(os.Stderr, "supervisor: "+format+"\n", a...)
	os.Exit(2)
}

func workerEnv() []string {
	env := os.Environ()
	env = append(env, "GORACE=halt_on_error=1 exitcode=66", "GOTRACEBACK=single", "GOMAXPROCS="+envOr("VERIF_WORKER_GOMAXPROCS", "2"))
	return env
}

func envOr(k, d string) string {
	if v := os.Getenv(k); v != "" {
		return v
	}
	return d
}

type chunkResult struct {
	out      *workerOut
	sigs     []byte
	crashed  bool
	harness  bool
	crashIdx uint64
	stderr   string
	exit     int
}

func runChunk(id int, from, to uint64, trace bool) chunkResult {
	status := filepath.Join(workDir, fmt.Sprintf("status-%d", id))
	out := filepath.Join(workDir, fmt.Sprintf("out-%d.json", id))
	os.Remove(out)
	os.Remove(out + ".sigs")
	args := []string{"-prop", propID, "-tier", tier, "-seed", fmt.Sprint(seed), "-from", fmt.Sprint(from), "-to", fmt.Sprint(to), "-status", status, "-out", out, "-watchdog", fmt.Sprint(wdSecs), "-known", filepath.Join(verifDir, "known_findings.json")}
	if trace {
		args = append(args, "-trace")
	}
	cmd := exec.Command(workerBin, args...)
	cmd.Env = workerEnv()
	var stderr bytes.Buffer
	cmd.Stderr = &limitedWriter{buf: &stderr, max: 1 << 20}
	cmd.Stdout = os.Stderr
	err := cmd.Run()
	res := chunkResult{stderr: stderr.String()}
	if err != nil {
		res.exit = -1
		if ee, ok := err.(*exec.ExitError); ok {
			res.exit = ee.ExitCode()
		}
		if res.exit == 3 {
			// 3 = harness error reported by the worker itself (the Go runtime uses
			// 2 for fatal errors and escaped panics, which are verdict material).
			// In the sweep it is kept until the end: a library that writes outside
			// its memory makes harness code fail in arbitrary ways, and violations
			// confirmed elsewhere in the sweep must not be lost to that.
			if deferHarness {
				harnessMu.Lock()
				harnessErrs = append(harnessErrs, res.stderr)
				harnessMu.Unlock()
				res.harness = true
				return res
			}
			fmt.Fprint(os.Stderr, res.stderr)
			die("worker reported a harness error")
		}
		res.crashed = true
		b, _ := os.ReadFile(status)
		idx, perr := strconv.ParseUint(strings.TrimSpace(string(b)), 10, 64)
		if perr != nil {
			fmt.Fprint(os.Stderr, res.stderr)
			die("worker died (exit %d) before starting a run", res.exit)
		}
		res.crashIdx = idx
		return res
	}
	b, rerr := os.ReadFile(out)
	if rerr != nil {
		die("worker output missing: %v", rerr)
	}
	var wo workerOut
	if err := json.Unmarshal(b, &wo); err != nil || !wo.Completed {
		die("worker output unreadable: %v", err)
	}
	res.out = &wo
	res.sigs, _ = os.ReadFile(out + ".sigs")
	os.Remove(out)
	os.Remove(out + ".sigs")
	return res
}

type limitedWriter struct {
	buf *bytes.Buffer
	max int
}

func (l *limitedWriter) Write(p []byte) (int, error) {
	if l.buf.Len() < l.max {
		n := l.max - l.buf.Len()
		if n > len(p) {
			n = len(p)
		}
		l.buf.Write(p[:n])
	}
	return len(p), nil
}

// crashClass derives class and key from the stderr of a dead worker.
func crashClass(exit int, stderr string) (class, key, detail string) {
	lines := strings.Split(stderr, "\n")
	head := func(n int) string {
		if len(lines) > n {
			return strings.Join(lines[:n], "\n")
		}
		return stderr
	}
	switch {
	case exit == 66 || strings.Contains(stderr, "WARNING: DATA RACE"):
		class = "data-race"
		// key: the first two library frames of the two accesses
		var fr []string
		for _, l := range lines {
			l = strings.TrimSpace(l)
			if strings.HasPrefix(l, "github.com/segmentio/encoding/") && !strings.Contains(l, "verifshim") && strings.HasSuffix(l, ")") {
				f := l[:strings.LastIndex(l, "(")]
				f = strings.TrimPrefix(f, "github.com/segmentio/encoding/")
				if len(fr) == 0 || fr[len(fr)-1] != f {
					fr = append(fr, f)
				}
			}
			if strings.HasPrefix(l, "Goroutine ") && strings.Contains(l, "created at") {
				break
			}
		}
		// keep the innermost frame of each access: first frame after "Write at"/"Read at"/"Previous"
		key = raceKey(lines)
		detail = head(60)
	case exit == 67 || strings.Contains(stderr, "WATCHDOG"):
		class, key, detail = "hang", "hang", head(5)
	case strings.Contains(stderr, "stack overflow") || strings.Contains(stderr, "goroutine stack exceeds"):
		class, key, detail = "fatal", "stack-overflow", head(30)
	case strings.Contains(stderr, "fatal error:"):
		class = "fatal"
		for _, l := range lines {
			if strings.HasPrefix(l, "fatal error:") {
				key = strings.TrimSpace(l)
				break
			}
		}
		detail = head(40)
	case strings.Contains(stderr, "DEADLOCK"):
		class, key, detail = "deadlock", "deadlock", head(20)
	default:
		class, key = "crash", fmt.Sprintf("exit-%d", exit)
		for _, l := range lines {
			if strings.HasPrefix(l, "panic:") {
				key = strings.TrimSpace(l)
				if len(key) > 100 {
					key = key[:100]
				}
				break
			}
		}
		detail = head(40)
	}
	return
}

func raceKey(lines []string) string {
	var fr []string
	want := false
	for _, l := range lines {
		t := strings.TrimSpace(l)
		if strings.HasPrefix(t, "Write at") || strings.HasPrefix(t, "Read at") || strings.HasPrefix(t, "Previous write at") || strings.HasPrefix(t, "Previous read at") ||
			strings.HasPrefix(t, "Atomic") || strings.HasPrefix(t, "Previous atomic") {
			want = true
			continue
		}
		if t == "" {
			// end of that access's stack: a frame further down belongs to something else
			want = false
			continue
		}
		if want && strings.HasPrefix(t, "github.com/segmentio/encoding/") && !strings.Contains(t, "verifshim") {
			f := t
			if i := strings.LastIndex(f, "("); i > 0 {
				f = f[:i]
			}
			fr = append(fr, strings.TrimPrefix(f, "github.com/segmentio/encoding/"))
			want = false
		}
		if len(fr) == 2 {
			break
		}
	}
	sort.Strings(fr)
	return "race:" + strings.Join(fr, "<->")
}

// runReplay executes a replay file in a fresh worker; returns the (possibly
// re-derived) replay result and whether the worker crashed.
func runReplay(path string, shrink bool, budget int) (res *replayFile, crashed bool, exit int, stderr string) {
	out := filepath.Join(workDir, filepath.Base(path)+".out")
	os.Remove(out)
	args := []string{"-prop", propID, "-replay", path, "-out", out, "-watchdog", fmt.Sprint(wdSecs), "-budget", fmt.Sprint(budget), "-known", filepath.Join(verifDir, "known_findings.json")}
	if shrink {
		args = append(args, "-shrink")
	}
	cmd := exec.Command(workerBin, args...)
	cmd.Env = workerEnv()
	var eb, ob bytes.Buffer
	cmd.Stderr = &limitedWriter{buf: &eb, max: 1 << 20}
	cmd.Stdout = &ob
	err := runWithTimeout(cmd, time.Duration(wdSecs+60)*time.Second+time.Duration(budget)*time.Second)
	exit = 0
	if err != nil {
		exit = -1
		if ee, ok := err.(*exec.ExitError); ok {
			exit = ee.ExitCode()
		}
	}
	stderr = eb.String()
	if exit == 3 && inSweep {
		// confirmation of a finding of the sweep: kept until the end like the harness
		// errors of the sweep itself; the finding counts as not reproduced
		harnessMu.Lock()
		harnessErrs = append(harnessErrs, "replay hit a harness error\n"+stderr)
		harnessMu.Unlock()
		return &replayFile{}, false, exit, stderr
	}
	if exit == 3 {
		fmt.Fprint(os.Stderr, stderr)
		die("replay hit a harness error")
	}
	b, rerr := os.ReadFile(out)
	os.Remove(out)
	if rerr != nil {
		if exit != 0 && exit != 1 {
			return nil, true, exit, stderr
		}
		die("replay produced no output (exit %d): %s", exit, stderr)
	}
	var rf replayFile
	if err := json.Unmarshal(b, &rf); err != nil {
		die("replay output unreadable: %v", err)
	}
	return &rf, false, exit, stderr
}

func writeJSON(path string, v any) {
	b, _ := json.MarshalIndent(v, "", " ")
	os.MkdirAll(filepath.Dir(path), 0o755)
	if err := os.WriteFile(path, append(b, '\n'), 0o644); err != nil {
		die("%v", err)
	}
}

func sanitize(s string) string {
	var b strings.Builder
	for _, c := range s {
		if (c >= 'a' && c <= 'z') || (c >= 'A' && c <= 'Z') || (c >= '0' && c <= '9') || c == '-' || c == '_' {
			b.WriteRune(c)
		} else {
			b.WriteByte('_')
		}
		if b.Len() > 60 {
			break
		}
	}
	return b.String()
}

func main() {
	var (
		nworkers = flag.Int("workers", runtime.NumCPU(), "worker processes")
		replay   = flag.String("replay", "", "replay one file and exit")
		runsFlag = flag.Uint64("runs", 0, "override the run count of the tier")
		detTest  = flag.Bool("determinism", false, "determinism self-test: run every index twice in different processes / GOMAXPROCS and compare event-log hashes")
		noEvid   = flag.Bool("no-evidence", false, "do not write the evidence file")
	)
	flag.StringVar(&workerBin, "worker", "", "worker binary")
	flag.StringVar(&workDir, "work", "", "scratch directory")
	flag.StringVar(&verifDir, "verif", "/verif", "verif directory")
	flag.StringVar(&propID, "prop", "", "property")
	flag.StringVar(&tier, "tier", "quick", "tier")
	flag.Uint64Var(&seed, "seed", 1, "VERIF_SEED")
	flag.IntVar(&wdSecs, "watchdog", 180, "per-run watchdog seconds")
	flag.Parse()
	start := time.Now()

	// property table from the worker itself
	dout, err := exec.Command(workerBin, "-describe").Output()
	if err != nil {
		die("worker -describe: %v", err)
	}
	var descs []desc
	json.Unmarshal(dout, &descs)
	var d *desc
	for i := range descs {
		if descs[i].ID == propID {
			d = &descs[i]
		}
	}
	if d == nil {
		die("worker does not implement %s", propID)
	}

	if *replay != "" {
		rf, crashed, exit, stderr := runReplay(*replay, false, 0)
		// The schedule of a replay is exact; whether the race detector reports a
		// race it meets on the way is not: it keeps a few shadow cells per word and
		// evicts among them at random.  A file recorded as a data race is therefore
		// re-executed until the report appears (the schedule is the same each time).
		if !crashed && rf != nil && rf.Class == "" {
			var want replayFile
			if b, err := os.ReadFile(*replay); err == nil && json.Unmarshal(b, &want) == nil && want.Class == "data-race" {
				for attempt := 0; attempt < 12 && !crashed && rf != nil && rf.Class == ""; attempt++ {
					rf, crashed, exit, stderr = runReplay(*replay, false, 0)
				}
			}
		}
		if crashed {
			class, key, detail := crashClass(exit, stderr)
			fmt.Printf("replay: worker died: class=%s key=%s\n%s\n", class, key, detail)
			fmt.Printf("VIOLATION property=%s replay=%s\n", propID, *replay)
			os.Exit(1)
		}
		if rf.Class != "" {
			fmt.Printf("replay: class=%s key=%s\n%s\n", rf.Class, rf.Key, rf.Detail)
			fmt.Printf("VIOLATION property=%s replay=%s\n", propID, *replay)
			os.Exit(1)
		}
		fmt.Printf("replay: no violation on this tree\n")
		os.Exit(0)
	}

	total := d.Quick
	if tier == "thorough" {
		total = d.Thorough
	}
	if *runsFlag > 0 {
		total = *runsFlag
	}
	if v := os.Getenv("VERIF_RUNS"); v != "" {
		if n, err := strconv.ParseUint(v, 10, 64); err == nil && n > 0 {
			total = n
		}
	}
	budgetS := 0
	if v := os.Getenv("VERIF_BUDGET_S"); v != "" {
		budgetS, _ = strconv.Atoi(v)
	}

	if *detTest {
		determinism(total, *nworkers)
		return
	}

	// replay files of earlier sweeps of this property are stale by now
	if old, _ := filepath.Glob(filepath.Join(verifDir, "replays", propID, "*.json")); len(old) > 0 {
		for _, f := range old {
			os.Remove(f)
		}
	}

	// ---- known findings: replay every witness first --------------------------
	var ff findingsFile
	if b, err := os.ReadFile(filepath.Join(verifDir, "known_findings.json")); err == nil {
		if err := json.Unmarshal(b, &ff); err != nil {
			die("known_findings.json: %v", err)
		}
	}
	known := map[string]*finding{}
	knownHit := map[string]int64{}
	violations := 0
	var violLines []string
	for i := range ff.Findings {
		f := &ff.Findings[i]
		if f.Property != propID {
			continue
		}
		wpath := filepath.Join(verifDir, f.Witness)
		var rfClass, rfKey, rfDetail string
		if f.Witness != "" {
			tmp := filepath.Join(workDir, "witness-"+sanitize(f.Key)+".json")
			b, err := os.ReadFile(wpath)
			if err != nil {
				die("witness %s: %v", wpath, err)
			}
			os.WriteFile(tmp, b, 0o644)
			rf, crashed, exit, stderr := runReplay(tmp, false, 0)
			if crashed {
				rfClass, rfKey, rfDetail = crashClass(exit, stderr)
			} else {
				rfClass, rfKey, rfDetail = rf.Class, rf.Key, rf.Detail
			}
		}
		switch f.Status {
		case "known":
			known[f.Class+"|"+f.Key] = f
			if f.Witness == "" || (rfClass == f.Class && rfKey == f.Key) {
				fmt.Printf("KNOWN-FINDING: property=%s %s [class=%s key=%s witness=%s]\n", propID, f.What, f.Class, f.Key, f.Witness)
			} else if rfClass == "" {
				fmt.Printf("KNOWN-FINDING-RESOLVED: property=%s witness %s no longer fails (%s)\n", propID, f.Witness, f.What)
			} else {
				// the witness fails differently: that is a different violation
				rp := filepath.Join(verifDir, "replays", propID, "witness-changed-"+sanitize(rfKey)+".json")
				b, _ := os.ReadFile(wpath)
				os.MkdirAll(filepath.Dir(rp), 0o755)
				os.WriteFile(rp, b, 0o644)
				fmt.Printf("witness of known finding now fails as class=%s key=%s: %s\n", rfClass, rfKey, rfDetail)
				violLines = append(violLines, fmt.Sprintf("VIOLATION property=%s replay=%s", propID, rp))
				violations++
			}
		case "fixed":
			if rfClass != "" {
				rp := filepath.Join(verifDir, "replays", propID, "regression-"+sanitize(f.Key)+".json")
				b, _ := os.ReadFile(wpath)
				os.MkdirAll(filepath.Dir(rp), 0o755)
				os.WriteFile(rp, b, 0o644)
				fmt.Printf("regression: fixed finding has returned (%s): class=%s key=%s\n%s\n", f.What, rfClass, rfKey, rfDetail)
				violLines = append(violLines, fmt.Sprintf("VIOLATION property=%s replay=%s", propID, rp))
				violations++
			}
		}
	}

	// ---- the sweep -----------------------------------------------------------------
	nchunks := uint64(*nworkers * 8)
	if nchunks > total {
		nchunks = total
	}
	if nchunks == 0 {
		nchunks = 1
	}
	type job struct {
		id       int
		from, to uint64
	}
	jobs := make(chan job, nchunks+1024)
	per := total / nchunks
	var nq int
	for c := uint64(0); c < nchunks; c++ {
		from := c * per
		to := from + per
		if c == nchunks-1 {
			to = total
		}
		jobs <- job{nq, from, to}
		nq++
	}
	var mu sync.Mutex
	agg := workerOut{Faults: map[string]int64{}, Probes: map[string]int64{}, ViolCount: map[string]int64{}}
	sigset := map[uint64]struct{}{}
	type viol struct {
		violationRec
		crash  bool
		stderr string
		from   uint64 // first run of the chunk the crash happened in
	}
	firstViol := map[string]*viol{}
	pending := int(nchunks)
	var wg sync.WaitGroup
	done := make(chan struct{})
	var skipped uint64
	deadline := time.Time{}
	if budgetS > 0 {
		deadline = start.Add(time.Duration(budgetS) * time.Second)
	}
	var jobMu sync.Mutex
	addJob := func(from, to uint64) {
		jobMu.Lock()
		defer jobMu.Unlock()
		if from >= to {
			return
		}
		mu.Lock()
		pending++
		id := nq
		nq++
		mu.Unlock()
		jobs <- job{id, from, to}
	}
	finish := func() {
		mu.Lock()
		pending--
		p := pending
		mu.Unlock()
		if p == 0 {
			close(done)
		}
	}
	for w := 0; w < *nworkers; w++ {
		wg.Add(1)
		go func() {
			defer wg.Done()
			for {
				var j job
				select {
				case j = <-jobs:
				case <-done:
					return
				}
				if !deadline.IsZero() && time.Now().After(deadline) {
					mu.Lock()
					skipped += j.to - j.from
					mu.Unlock()
					finish()
					continue
				}
				deferHarness = true
				res := runChunk(j.id, j.from, j.to, false)
				if res.harness {
					finish()
					continue
				}
				if res.crashed {
					class, key, detail := crashClass(res.exit, res.stderr)
					if class == "data-race" && key == "race:" {
						// neither access has a frame of the library under test: the harness
						// raced with itself, which says nothing about the property — unless
						// the same sweep shows the library reading or writing through wild
						// pointers (decided at the end, like the harness errors)
						harnessMu.Lock()
						harnessErrs = append(harnessErrs, fmt.Sprintf("data race between two accesses of the harness itself (run %d)\n%s\n", res.crashIdx, detail))
						harnessMu.Unlock()
						finish()
						continue
					}
					mu.Lock()
					ck := class + "|" + key
					agg.ViolCount[ck]++
					if _, ok := firstViol[ck]; !ok || firstViol[ck].Index > res.crashIdx {
						firstViol[ck] = &viol{violationRec: violationRec{Index: res.crashIdx, Class: class, Key: key, Detail: detail}, crash: true, stderr: res.stderr, from: j.from}
					}
					nCrash := int64(0)
					for k, v := range agg.ViolCount {
						if firstViol[k] != nil && firstViol[k].crash {
							nCrash += v
						}
					}
					mu.Unlock()
					// the runs before the crash are re-done together with the rest, minus the crashing index,
					// unless crashes are pervasive (then stop exploring: the verdict is already decided).
					if nCrash < 64 {
						addJob(j.from, res.crashIdx)
						addJob(res.crashIdx+1, j.to)
					} else {
						mu.Lock()
						skipped += j.to - j.from
						mu.Unlock()
					}
					finish()
					continue
				}
				mu.Lock()
				o := res.out
				agg.Runs += o.Runs
				agg.Evaluations += o.Evaluations
				agg.NonTrivial += o.NonTrivial
				agg.Steps += o.Steps
				for k, v := range o.Faults {
					agg.Faults[k] += v
				}
				for k, v := range o.Probes {
					agg.Probes[k] += v
				}
				for k, v := range o.ViolCount {
					agg.ViolCount[k] += v
				}
				for k, v := range o.KnownHits {
					knownHit[k] += v
				}
				if j.from == 0 {
					agg.Samples = append(o.Samples, agg.Samples...)
				} else if len(agg.Samples) < 3 {
					agg.Samples = append(agg.Samples, o.Samples...)
				}
				for i := range o.Violations {
					v := o.Violations[i]
					ck := v.Class + "|" + v.Key
					if cur, ok := firstViol[ck]; !ok || cur.Index > v.Index {
						firstViol[ck] = &viol{violationRec: v}
					}
				}
				for i := 0; i+8 <= len(res.sigs); i += 8 {
					sigset[binary.LittleEndian.Uint64(res.sigs[i:])] = struct{}{}
				}
				mu.Unlock()
				finish()
			}
		}()
	}
	<-done
	wg.Wait()

	deferHarness = false
	inSweep = true
	// ---- violations: confirm in a fresh process, minimise, report ---------------------
	var keys []string
	for k := range firstViol {
		keys = append(keys, k)
	}
	sort.Strings(keys)
	reported := 0
	for _, ck := range keys {
		v := firstViol[ck]
		if f, ok := known[ck]; ok {
			knownHit[ck] += agg.ViolCount[ck]
			_ = f
			continue
		}
		if reported >= maxReported {
			// every distinct (class, key) is counted in the evidence; only the
			// first few are confirmed, minimised and given a replay file
			fmt.Printf("violation class=%s key=%s occurrences=%d first_run=%d (not minimised: more than %d distinct violations)\n", v.Class, v.Key, agg.ViolCount[ck], v.Index, maxReported)
			violations++
			continue
		}
		rdir := filepath.Join(verifDir, "replays", propID)
		os.MkdirAll(rdir, 0o755)
		name := fmt.Sprintf("%s-%s-seed%d-run%d.json", sanitize(v.Class), sanitize(v.Key), seed, v.Index)
		rpath := filepath.Join(rdir, name)
		rf := replayFile{Property: propID, Class: v.Class, Key: v.Key, Detail: v.Detail, Seed: seed, Index: v.Index, Tier: tier, Tape: v.Tape}
		if v.crash {
			// re-run the index alone to confirm and to get its tape (the tape of a
			// recording run is a pure function of (seed, property, index)).
			rf.Note = "worker process died during this run; replay re-executes run_index from the seed"
			writeJSON(rpath, rf)
			res := runChunk(100000+reported, v.Index, v.Index+1, false)
			if v.Class == "data-race" {
				// same schedule every time, but the race detector's report is sampled
				// (random eviction among its shadow cells): look again a few times
				for attempt := 0; attempt < 12 && !res.crashed; attempt++ {
					res = runChunk(100000+reported, v.Index, v.Index+1, false)
				}
				if !res.crashed {
					// A report of the race detector is sound whether or not it shows
					// again: report it, with the original report as the detail.
					rf.Note = "data race reported by the race detector inside a batch of runs; 13 re-executions of the run alone (same schedule) did not produce the report again: the detector samples (random eviction among shadow cells), its reports are nevertheless sound"
					writeJSON(rpath, rf)
					fmt.Printf("violation class=%s key=%s occurrences=%d first_run=%d\n  %s\n", v.Class, v.Key, agg.ViolCount[ck], v.Index, strings.ReplaceAll(firstLines(rf.Detail, 12), "\n", "\n  "))
					violLines = append(violLines, fmt.Sprintf("VIOLATION property=%s replay=%s", propID, rpath))
					violations++
					reported++
					continue
				}
			}
			if !res.crashed && (strings.Contains(v.Key, "out of memory") || strings.Contains(v.Key, "cannot allocate") || v.Key == "exit--1") {
				// running out of memory depends on what the earlier runs of the same
				// worker left on the heap; the crash itself is the evidence.  The
				// replay re-executes the run, which reports whatever it finds alone.
				rf.Note += "; out-of-memory crashes (fatal error, or the process killed by the kernel / address-space limit) depend on the heap state of the worker and need not reproduce alone"
				writeJSON(rpath, rf)
			} else if !res.crashed && v.Class == "hang" {
				// a watchdog expiry that does not reproduce alone is load on the
				// machine, not a property of the run: say so and move on
				fmt.Printf("WARNING run %d exceeded the %d s watchdog inside its batch but completes when run alone; not reported\n", v.Index, wdSecs)
				os.Remove(rpath)
				continue
			} else if !res.crashed {
				// A library that writes outside its allocations kills the worker where
				// the damage happens to be read: that depends on what the earlier runs
				// of the same worker left on the heap.  Re-execute the chunk up to and
				// including the run, in a fresh process.
				res = runChunk(100000+reported, v.from, v.Index+1, false)
				if !res.crashed {
					// decided at the end of the sweep, like the harness errors
					harnessErrs = append(harnessErrs, fmt.Sprintf("%s\ncrash of run %d (class %s) did not reproduce when run alone, nor after the runs %d..%d of its chunk\n", firstLines(v.stderr, 40), v.Index, v.Class, v.from, v.Index))
					os.Remove(rpath)
					continue
				}
				from := v.from
				rf.RangeFrom = &from
				c2, k2, d2 := crashClass(res.exit, res.stderr)
				rf.Note = fmt.Sprintf("worker process died during this run; it does not when the run executes alone, it does after the runs %d..%d of the same seed in one process (memory left behind by a library that writes outside its allocations): the replay executes that range", v.from, v.Index)
				if c2 != v.Class || k2 != v.Key {
					rf.Note += fmt.Sprintf("; first seen as %s|%s", v.Class, v.Key)
					v.Class, v.Key, v.Detail = c2, k2, d2
					rf.Class, rf.Key, rf.Detail = c2, k2, d2
				}
				writeJSON(rpath, rf)
				fmt.Printf("violation class=%s key=%s occurrences=%d first_run=%d\n  %s\n", v.Class, v.Key, agg.ViolCount[ck], v.Index, strings.ReplaceAll(firstLines(rf.Detail, 12), "\n", "\n  "))
				violLines = append(violLines, fmt.Sprintf("VIOLATION property=%s replay=%s", propID, rpath))
				violations++
				reported++
				continue
			}
			c2, k2, _ := crashClass(res.exit, res.stderr)
			if res.crashed && (c2 != v.Class || k2 != v.Key) {
				// inside a batch the same defect may kill the worker in another way
				// (a panic on corrupted state instead of the race report that is
				// seen first when the run executes alone): the alone execution is
				// the one the replay reproduces, so it names the violation
				rf.Note += fmt.Sprintf("; in its batch the run died as %s|%s", v.Class, v.Key)
				v.Class, v.Key = c2, k2
				_, _, v.Detail = crashClass(res.exit, res.stderr)
				rf.Class, rf.Key, rf.Detail = v.Class, v.Key, v.Detail
				writeJSON(rpath, rf)
			}
			// recover the tape of the crashing run through the memory-mapped mirror,
			// then minimise it at process level (each attempt is a fresh worker)
			if res.crashed && os.Getenv("VERIF_NO_SHRINK") == "" {
				if tp := recoverTape(rpath); tp != nil {
					rf.Tape = tp
					classify := func(c []uint32) (string, string) {
						cand := rf
						cand.Tape = c
						tmp := filepath.Join(workDir, "cand.json")
						writeJSON(tmp, cand)
						r2, crashed, exit, stderr := runReplay(tmp, false, 0)
						if crashed {
							cc, kk, _ := crashClass(exit, stderr)
							return cc, kk
						}
						if r2 != nil {
							return r2.Class, r2.Key
						}
						return "", ""
					}
					if cc, kk := classify(tp); cc == v.Class && kk == v.Key {
						deadline := time.Now().Add(45 * time.Second)
						min := minimiseProc(tp, 120, func(c []uint32) bool {
							if time.Now().After(deadline) {
								return false
							}
							cc, kk := classify(c)
							return cc == v.Class && kk == v.Key
						})
						rf.Tape = min
						rf.Note = fmt.Sprintf("worker process died during this run (%s); tape recovered through a memory-mapped mirror and minimised at process level from %d draws to %d", v.Class, len(tp), len(min))
						writeJSON(rpath, rf)
					} else {
						rf.Tape = nil
					}
				}
			}
		} else {
			writeJSON(rpath, rf)
			// confirm in a fresh process
			res, crashed, _, _ := runReplay(rpath, false, 0)
			unstable := false
			if crashed || res.Class != v.Class || res.Key != v.Key {
				// The library itself has one unseedable source of nondeterminism, Go's
				// map iteration order (the order in which proto and thrift emit map
				// entries): a violation whose shape depends on it may replay as another
				// class, or only on some attempts.  Any violation on replay confirms
				// it; silence on eight attempts in a row does not.
				for attempt := 0; attempt < 8 && (crashed || res == nil || res.Class == ""); attempt++ {
					res, crashed, _, _ = runReplay(rpath, false, 0)
				}
				if crashed || res == nil || res.Class == "" {
					// decided at the end of the sweep: fatal, unless the sweep confirms that
					// the library faults or writes outside its memory (then what a worker
					// saw after that damage need not show in a fresh process)
					harnessErrs = append(harnessErrs, fmt.Sprintf("violation %s of run %d did not reproduce from its tape in a fresh process in 9 attempts\n", ck, v.Index))
					os.Remove(rpath)
					continue
				}
				unstable = true
				rf.Note = fmt.Sprintf("first seen as %s|%s; the class depends on Go's map iteration order inside the library under test, so a replay may show a sibling class", v.Class, v.Key)
				rf.Class, rf.Key, rf.Detail = res.Class, res.Key, res.Detail
				res.Note = rf.Note
			}
			// minimise (in-process, budget-capped), then confirm the minimised tape
			if os.Getenv("VERIF_NO_SHRINK") == "" && !unstable {
				min, crashed, _, _ := runReplay(rpath, true, 600)
				if !crashed && min != nil && min.Class == v.Class && min.Key == v.Key && len(min.Tape) <= len(rf.Tape) {
					min.Note = fmt.Sprintf("minimised from a tape of %d draws to %d", len(rf.Tape), len(min.Tape))
					mpath := rpath
					writeJSON(mpath, min)
					chk, crashed2, _, _ := runReplay(mpath, false, 0)
					if crashed2 || chk == nil || chk.Class != v.Class || chk.Key != v.Key {
						// keep the confirmed, unminimised replay
						writeJSON(rpath, res)
					} else {
						chk.Note = min.Note
						writeJSON(mpath, chk)
						rf = *chk
					}
				} else {
					writeJSON(rpath, res)
				}
			} else {
				writeJSON(rpath, res)
			}
		}
		fmt.Printf("violation class=%s key=%s occurrences=%d first_run=%d\n  %s\n", v.Class, v.Key, agg.ViolCount[ck], v.Index, strings.ReplaceAll(firstLines(rf.Detail, 12), "\n", "\n  "))
		violLines = append(violLines, fmt.Sprintf("VIOLATION property=%s replay=%s", propID, rpath))
		violations++
		reported++
	}

	// ---- evidence -------------------------------------------------------------------
	wall := time.Since(start).Seconds()
	for _, k := range d.FaultKinds {
		if _, ok := agg.Faults[k]; !ok {
			agg.Faults[k] = 0
		}
	}
	var zeroProbes []string
	for _, k := range d.ProbeNames {
		if _, ok := agg.Probes[k]; !ok {
			agg.Probes[k] = 0
		}
	}
	for k, v := range agg.Probes {
		if v == 0 {
			zeroProbes = append(zeroProbes, k)
		}
	}
	for k, v := range agg.Faults {
		if v == 0 {
			zeroProbes = append(zeroProbes, "fault:"+k)
		}
	}
	sort.Strings(zeroProbes)
	for _, k := range zeroProbes {
		fmt.Printf("WARNING probe=%s never fired\n", k)
	}
	if agg.Evaluations == 0 {
		agg.Evaluations = int64(agg.Runs)
	}
	samples := agg.Samples
	if len(samples) > 3 {
		samples = samples[:3]
	}
	if samples == nil {
		samples = []any{}
	}
	knownList := map[string]int64{}
	for k, v := range knownHit {
		knownList[k] = v
	}
	ev := map[string]any{
		"property_id": propID,
		"tier":        tier,
		"seed":        seed,
		"level":       d.Level,
		"wall_s":      wall,
		"violations":  violations,
		"assumptions": d.Assumptions,
		"coverage": map[string]any{
			"evaluations":            agg.Evaluations,
			"distinct_nontrivial":    len(sigset),
			"rule":                   d.Rule,
			"samples":                samples,
			"simulated_runs":         agg.Runs,
			"runs_planned":           total,
			"runs_skipped_by_budget": skipped,
			"nontrivial_runs":        agg.NonTrivial,
			"runs_per_hour":          float64(agg.Runs) / wall * 3600,
			"logical_steps":          agg.Steps,
			"simulated_time":         "not applicable: the library reads no clock and has no timers; logical steps (reader events / scheduling points / fault applications) are reported instead",
			"faults_fired":           agg.Faults,
			"probes":                 agg.Probes,
			"probes_never_fired":     zeroProbes,
			"known_findings_hit":     knownList,
			"violation_classes":      agg.ViolCount,
			"real_components":        d.Real,
			"model_components":       d.Model,
			"engine":                 d.Engine,
			"toolchain":              runtime.Version(),
			"workers":                *nworkers,
			"exhaustive":             false,
		},
	}
	if !*noEvid {
		writeJSON(filepath.Join(verifDir, "evidence", propID+".json"), ev)
	}
	fmt.Printf("%s %s: runs=%d evaluations=%d nontrivial=%d distinct=%d steps=%d wall=%.1fs violations=%d known_hits=%d\n",
		propID, tier, agg.Runs, agg.Evaluations, agg.NonTrivial, len(sigset), agg.Steps, wall, violations, len(knownHit))
	for _, l := range violLines {
		fmt.Println(l)
	}
	if len(harnessErrs) > 0 {
		// harness errors of the sweep: fatal unless the same sweep confirmed that the
		// library faults, panics or writes outside its memory
		unsafeSeen := false
		for ck := range firstViol {
			c := strings.SplitN(ck, "|", 2)[0]
			if c == "fatal" || c == "panic" || c == "memory" || c == "crash" || c == "out-of-bounds-write" || c == "input-modified" || c == "data-race" {
				unsafeSeen = true
			}
		}
		if violations == 0 || !unsafeSeen {
			fmt.Fprint(os.Stderr, harnessErrs[0])
			die("worker reported a harness error (%d in this sweep)", len(harnessErrs))
		}
		fmt.Printf("WARNING %d worker(s) stopped with an error inside harness code; the sweep also confirmed that the library faults / panics / writes outside its memory, which makes harness code fail in arbitrary ways: reported as collateral, not as a harness defect\n", len(harnessErrs))
	}
	if violations > 0 {
		os.Exit(1)
	}
	if agg.Runs == 0 {
		die("no runs executed")
	}
}

// recoverTape re-executes a crashing run with the tape mirrored into a
// memory-mapped file and returns the draws made up to the crash.
func recoverTape(rpath string) []uint32 {
	mm := filepath.Join(workDir, "tape.mmap")
	os.Remove(mm)
	cmd := exec.Command(workerBin, "-prop", propID, "-replay", rpath, "-tapemap", mm, "-watchdog", fmt.Sprint(wdSecs))
	cmd.Env = workerEnv()
	runWithTimeout(cmd, time.Duration(wdSecs+60)*time.Second)
	b, err := os.ReadFile(mm)
	os.Remove(mm)
	if err != nil || len(b) < 4 {
		return nil
	}
	n := int(binary.LittleEndian.Uint32(b))
	if n <= 0 || 4+4*n > len(b) {
		return nil
	}
	tp := make([]uint32, n)
	for i := range tp {
		tp[i] = binary.LittleEndian.Uint32(b[4+4*i:])
	}
	return tp
}

// minimiseProc is the tape minimiser with an out-of-process predicate.
func minimiseProc(tp []uint32, budget int, ok func([]uint32) bool) []uint32 {
	cur := append([]uint32(nil), tp...)
	try := func(c []uint32) bool {
		if budget <= 0 {
			return false
		}
		budget--
		if ok(c) {
			cur = append(cur[:0:0], c...)
			return true
		}
		return false
	}
	for n := len(cur) / 2; n >= 1 && budget > 0; n /= 2 {
		for len(cur) > n && try(cur[:len(cur)-n]) {
		}
	}
	for size := len(cur) / 2; size >= 4 && budget > 0; size /= 2 {
		for i := 0; i+size <= len(cur) && budget > 0; {
			c := append(append([]uint32(nil), cur[:i]...), cur[i+size:]...)
			if !try(c) {
				i += size
			}
		}
	}
	for size := 64; size >= 8 && budget > 0; size /= 2 {
		for i := 0; i+size <= len(cur) && budget > 0; i += size {
			zero := true
			for _, v := range cur[i : i+size] {
				if v != 0 {
					zero = false
				}
			}
			if zero {
				continue
			}
			c := append([]uint32(nil), cur...)
			for j := i; j < i+size; j++ {
				c[j] = 0
			}
			try(c)
		}
	}
	n := len(cur)
	for n > 0 && cur[n-1] == 0 {
		n--
	}
	return cur[:n]
}

// runWithTimeout runs cmd and kills it when it outlives d (the worker's own
// watchdog should have fired long before).
func runWithTimeout(cmd *exec.Cmd, d time.Duration) error {
	if err := cmd.Start(); err != nil {
		return err
	}
	done := make(chan error, 1)
	go func() { done <- cmd.Wait() }()
	select {
	case err := <-done:
		return err
	case <-time.After(d):
		cmd.Process.Kill()
		<-done
		return fmt.Errorf("killed after %v", d)
	}
}

func firstLines(s string, n int) string {
	l := strings.Split(s, "\n")
	if len(l) > n {
		l = l[:n]
	}
	return strings.Join(l, "\n")
}

// determinism runs every index in two differently-shaped process layouts and
// GOMAXPROCS settings and compares event-log hashes and tape lengths.
func determinism(total uint64, nworkers int) {
	layouts := []struct {
		chunks uint64
		procs  string
	}{{1, "1"}, {7, "4"}, {16, "16"}, {total, "2"}}
	if total > 64 {
		layouts[3].chunks = 64
	}
	var ref map[string]string
	for li, l := range layouts {
		os.Setenv("VERIF_WORKER_GOMAXPROCS", l.procs)
		got := map[string]string{}
		var mu sync.Mutex
		var wg sync.WaitGroup
		sem := make(chan struct{}, nworkers)
		per := (total + l.chunks - 1) / l.chunks
		for c := uint64(0); c*per < total; c++ {
			from, to := c*per, (c+1)*per
			if to > total {
				to = total
			}
			wg.Add(1)
			sem <- struct{}{}
			go func(id int, from, to uint64) {
				defer wg.Done()
				defer func() { <-sem }()
				res := runChunk(li*100000+id, from, to, true)
				if res.crashed {
					fmt.Fprint(os.Stderr, res.stderr)
					die("determinism: worker crashed at run %d", res.crashIdx)
				}
				mu.Lock()
				for k, v := range res.out.TraceHash {
					got[k] = v
				}
				mu.Unlock()
			}(int(c), from, to)
		}
		wg.Wait()
		if ref == nil {
			ref = got
			continue
		}
		diff := 0
		for k, v := range ref {
			if got[k] != v {
				diff++
				if diff <= 5 {
					fmt.Printf("DIVERGENCE run=%s layout=%d: %s vs %s\n", k, li, v, got[k])
				}
			}
		}
		if diff > 0 || len(got) != len(ref) {
			fmt.Printf("determinism: %d of %d runs diverged in layout %d (chunks=%d GOMAXPROCS=%s)\n", diff, len(ref), li, l.chunks, l.procs)
			os.Exit(2)
		}
		fmt.Printf("determinism: layout %d (chunks=%d GOMAXPROCS=%s): %d runs identical\n", li, l.chunks, l.procs, len(got))
	}
	fmt.Printf("determinism: OK (%d runs x %d layouts)\n", total, len(layouts))
}
