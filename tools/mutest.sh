#!/usr/bin/env bash
# tools/mutest.sh <ID> <python-edit-script> [runs]   — development aid: apply an edit to a scratch worktree of /repo and run the quick check against it
set -e
ID=$1; EDIT=$2; RUNS=${3:-}
D=/var/tmp/mutest-$$
git -C /repo worktree add -q $D HEAD
trap "git -C /repo worktree remove --force $D" EXIT
(cd $D && python3 -c "$EDIT") || exit 9; (cd $D && GOFLAGS=-mod=mod GOPROXY=off go build ./...) || { echo MUTANT-DOES-NOT-BUILD; exit 9; }; (cd $D && GOFLAGS=-mod=mod GOPROXY=off go test -count=1 ./json ./proto ./thrift 2>&1 | tail -3)
if [ -n "$RUNS" ]; then export VERIF_RUNS=$RUNS; fi
VERIF_REPO=$D /verif/check $ID quick 2>&1 | grep -v "^  " | tail -${TAILN:-6}
