#!/bin/bash
# tools/reseed.sh <seeded-name>... | --all : re-run the quick check of each stored seeded change against a scratch
# worktree of /repo with the patch applied; prints one line per change and a summary.  Uses the checkout it lives in.
export GOFLAGS=-mod=mod GOPROXY=off GOSUMDB=off GOTOOLCHAIN=local
V=$(cd "$(dirname "$0")/.." && pwd)
if [ "${1:-}" = "--all" ]; then set -- $(ls $V/seeded | grep -E '^C[0-9]+-w[0-9]+-[0-9]+$'); fi
CAUGHT=0; MISSED=0; OTHER=0
for NAME in "$@"; do
  P=$(python3 -c "import json;print(json.load(open('$V/seeded/$NAME/meta.json'))['property'])")
  D=/var/tmp/reseed-$$-$NAME
  git -C /repo worktree add -q $D HEAD || exit 9
  if (cd $D && git apply $V/seeded/$NAME/patch.diff && go build ./...); then
    VERIF_REPO=$D $V/check $P quick > /var/tmp/reseed-$$.log 2>&1; RC=$?
    R=$(grep -a "^violation" /var/tmp/reseed-$$.log | sed 's/.*key=\(.*\) occurrences.*/\1/' | cut -c1-70 | head -2 | tr '\n' ';')
    echo "$NAME $P exit=$RC $R"
    case $RC in 1) CAUGHT=$((CAUGHT+1));; 0) MISSED=$((MISSED+1));; *) OTHER=$((OTHER+1));; esac
  else
    echo "$NAME: PATCH NO LONGER APPLIES OR BUILDS"; OTHER=$((OTHER+1))
  fi
  git -C /repo worktree remove --force $D
done
rm -f /var/tmp/reseed-$$.log
echo "SUMMARY caught=$CAUGHT not-caught=$MISSED other=$OTHER"
