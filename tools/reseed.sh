#!/bin/bash
# tools/reseed.sh <seeded-name>... : re-run the quick check of each stored seeded change against a scratch worktree with the patch applied
export GOFLAGS=-mod=mod GOPROXY=off GOSUMDB=off GOTOOLCHAIN=local
for NAME in "$@"; do
  P=$(python3 -c "import json;print(json.load(open('/verif/seeded/$NAME/meta.json'))['property'])")
  D=/var/tmp/reseed-$$-$NAME
  git -C /repo worktree add -q $D HEAD || exit 9
  if (cd $D && git apply /verif/seeded/$NAME/patch.diff && go build ./...); then
    R=$(VERIF_REPO=$D /verif/check $P quick 2>&1 | grep -a "^$P quick\|^violation" | cut -c1-150 | head -4 | tr '\n' ' ')
    echo "$NAME $P: $R"
  else
    echo "$NAME: PATCH NO LONGER APPLIES OR BUILDS"
  fi
  git -C /repo worktree remove --force $D
done
