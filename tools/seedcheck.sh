#!/usr/bin/env bash
# tools/seedcheck.sh <PROP> <agent-worktree> <i> <name> [runs]
# Confirms a seeded change (applies cleanly to /repo HEAD, builds, full suite passes, demo fails with it and passes
# without it) in a scratch worktree, runs the quick check of PROP against it, and stores it under /verif/seeded/<name>/.
set -u
P=$1; SRC=$2; I=$3; NAME=$4; RUNS=${5:-}
export GOFLAGS=-mod=mod GOPROXY=off GOSUMDB=off GOTOOLCHAIN=local
S=$SRC/SEEDED/$I
D=/var/tmp/seedcheck-$$
git -C /repo worktree add -q $D HEAD || exit 9
trap "git -C /repo worktree remove --force $D" EXIT
OUT=/verif/seeded/$NAME; mkdir -p $OUT
cp $S/patch.diff $OUT/patch.diff
cp $S/README.txt $OUT/README.agent.txt 2>/dev/null
rm -rf $OUT/demo; mkdir -p $OUT/demo; cp -r $S/* $OUT/demo/ 2>/dev/null; rm -f $OUT/demo/patch.diff $OUT/demo/README.txt
# locate the demo command
TAG=$(grep -ho "go:build [a-z_]*" $S/*.go $S/demo/*.go 2>/dev/null | head -1 | awk '{print $2}')
mkdir -p $D/SEEDED/$I; cp -r $S/* $D/SEEDED/$I/
if [ -n "${DEMO_OVERRIDE:-}" ]; then DEMO="$DEMO_OVERRIDE"; elif [ -f $S/demo/main.go ]; then DEMO="go run ./SEEDED/$I/demo"; else DEMO="go test -count=1 ${TAG:+-tags $TAG} ./SEEDED/$I/"; fi
cd $D
eval "$DEMO" >/tmp/sc-demo-clean.$$ 2>&1; CLEAN=$?
git apply $S/patch.diff || { echo "PATCH-DOES-NOT-APPLY"; exit 9; }
go build ./... || { echo "DOES-NOT-BUILD"; exit 9; }
go test -count=1 ./... >/tmp/sc-suite.$$ 2>&1; SUITE=$?
eval "$DEMO" >/tmp/sc-demo-seeded.$$ 2>&1; SEEDED=$?
echo "confirm: demo-on-clean-exit=$CLEAN suite-with-change-exit=$SUITE demo-with-change-exit=$SEEDED  ($DEMO)"
[ -n "$RUNS" ] && export VERIF_RUNS=$RUNS
START=$(date +%s)
VERIF_REPO=$D /verif/check $P quick > /tmp/sc-check.$$ 2>&1; RC=$?
END=$(date +%s)
grep -a "^violation\|^VIOLATION\|^$P quick\|^supervisor\|^check:" /tmp/sc-check.$$ | cut -c1-220 | head -12
echo "check-exit=$RC wall=$((END-START))s"
python3 - <<PY
import json
viol=[l.strip() for l in open('/tmp/sc-check.$$',errors='replace') if l.startswith('violation ')]
meta={"property":"$P","name":"$NAME","source":"independent sub-agent, wave $WAVE (given only the property text and a scratch worktree)",
 "demo_cmd":"$DEMO","confirmed":{"demo_passes_on_unchanged_tree":$CLEAN==0,"existing_suite_passes_with_change":$SUITE==0,"demo_fails_with_change":$SEEDED!=0},
 "check_cmd":"VERIF_REPO=<worktree with patch applied> ./check $P quick","check_exit":$RC,"check_wall_s":$((END-START)),"caught":$RC==1,
 "violation_classes":[v[:200] for v in viol[:6]]}
json.dump(meta,open('$OUT/meta.json','w'),indent=1)
PY
rm -f /tmp/sc-*.$$
