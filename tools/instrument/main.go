// instrument redirects the imports "sync" and "sync/atomic" of every non-test
// .go file of a scratch copy of the library to the shim packages
// github.com/segmentio/encoding/verifshim/{sync,atomic}, keeping whatever
// local name the file used.  It refuses (exit 2) when library code contains a
// construct the scheduler does not own.
package main

import (
	"bytes"
	"fmt"
	"go/ast"
	"go/format"
	"go/parser"
	"go/token"
	"os"
	"path/filepath"
	"strconv"
	"strings"
)

const shimBase = "github.com/segmentio/encoding/verifshim/"

func main() {
	if len(os.Args) != 2 {
		fmt.Fprintln(os.Stderr, "usage: instrument <module-root>")
		os.Exit(2)
	}
	root := os.Args[1]
	var refused []string
	rewritten := 0
	err := filepath.Walk(root, func(path string, info os.FileInfo, err error) error {
		if err != nil {
			return err
		}
		rel, _ := filepath.Rel(root, path)
		if info.IsDir() {
			if rel == "verifshim" || rel == "benchmarks" || rel == ".git" {
				return filepath.SkipDir
			}
			// nested modules are separate programs
			if rel != "." {
				if _, err := os.Stat(filepath.Join(path, "go.mod")); err == nil {
					return filepath.SkipDir
				}
			}
			return nil
		}
		if !strings.HasSuffix(path, ".go") || strings.HasSuffix(path, "_test.go") {
			return nil
		}
		fset := token.NewFileSet()
		f, err := parser.ParseFile(fset, path, nil, parser.ParseComments)
		if err != nil {
			return fmt.Errorf("%s: %v", rel, err)
		}
		if f.Name.Name == "main" {
			// a program (example, demonstration, generator) cannot be imported by
			// the harness: it is not part of what the simulator runs
			return nil
		}
		syncName, atomicName := "", ""
		changed := false
		for _, imp := range f.Imports {
			p, _ := strconv.Unquote(imp.Path.Value)
			switch p {
			case "sync", "sync/atomic":
				base := "sync"
				if p == "sync/atomic" {
					base = "atomic"
				}
				local := base
				if imp.Name != nil {
					local = imp.Name.Name
				}
				if local == "." || local == "_" {
					refused = append(refused, fmt.Sprintf("%s: dot/blank import of %s", rel, p))
					continue
				}
				if p == "sync" {
					syncName = local
				} else {
					atomicName = local
				}
				imp.Path.Value = strconv.Quote(shimBase + base)
				if imp.Name == nil {
					imp.Name = ast.NewIdent(local)
				}
				changed = true
			case "time":
				// allowed as a type/format library; Sleep/After/… refused below
			}
		}
		// constructs the scheduler does not own
		for _, cg := range f.Comments {
			for _, c := range cg.List {
				if strings.HasPrefix(c.Text, "//go:linkname") && (strings.Contains(c.Text, "sync.") || strings.Contains(c.Text, "runtime.sem") || strings.Contains(c.Text, "runtime_")) {
					refused = append(refused, fmt.Sprintf("%s: %s", rel, c.Text))
				}
			}
		}
		ast.Inspect(f, func(n ast.Node) bool {
			pos := func() string { return fmt.Sprintf("%s:%d", rel, fset.Position(n.Pos()).Line) }
			switch x := n.(type) {
			case *ast.GoStmt:
				refused = append(refused, pos()+": go statement")
			case *ast.SelectStmt:
				refused = append(refused, pos()+": select statement")
			case *ast.SendStmt:
				refused = append(refused, pos()+": channel send")
			case *ast.UnaryExpr:
				if x.Op == token.ARROW {
					refused = append(refused, pos()+": channel receive")
				}
			case *ast.ChanType:
				refused = append(refused, pos()+": channel type")
			case *ast.SelectorExpr:
				if id, ok := x.X.(*ast.Ident); ok {
					if syncName != "" && id.Name == syncName && (x.Sel.Name == "Cond" || x.Sel.Name == "NewCond") {
						refused = append(refused, pos()+": sync.Cond")
					}
					if id.Name == "time" {
						switch x.Sel.Name {
						case "Sleep", "After", "AfterFunc", "NewTimer", "NewTicker", "Tick":
							refused = append(refused, pos()+": time."+x.Sel.Name)
						}
					}
				}
			}
			return true
		})
		_ = atomicName
		if !changed {
			return nil
		}
		var buf bytes.Buffer
		if err := format.Node(&buf, fset, f); err != nil {
			return fmt.Errorf("%s: %v", rel, err)
		}
		rewritten++
		fmt.Printf("redirected %s\n", rel)
		return os.WriteFile(path, buf.Bytes(), info.Mode())
	})
	if err != nil {
		fmt.Fprintln(os.Stderr, "instrument:", err)
		os.Exit(2)
	}
	if len(refused) > 0 {
		for _, r := range refused {
			fmt.Fprintln(os.Stderr, "instrument: unsupported construct:", r)
		}
		os.Exit(2)
	}
	fmt.Printf("instrument: %d files redirected\n", rewritten)
}
