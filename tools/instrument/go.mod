module instrument

go 1.23
