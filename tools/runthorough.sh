#!/bin/bash
cd "$(dirname "$0")/.." || exit 2
for p in ${@:-C17 C16 C10 C02 C08 C07}; do echo "thorough $p $(./check $p thorough 2>&1 | grep -a "^$p thorough\|^VIOLATION\|^violation\|^supervisor\|HARNESS" | cut -c1-220 | tr '\n' ' ')"; done
