#!/bin/bash
# tools/benigncheck.sh <dir-with-BENIGN/<i>/patch.diff> : every check must stay silent on behaviour-preserving changes
SRC=$1; OUT=${2:-/tmp/benign-results.txt}; : > $OUT
export GOFLAGS=-mod=mod GOPROXY=off GOSUMDB=off GOTOOLCHAIN=local
for i in $(ls $SRC/BENIGN | grep -E "^[0-9]+$" | sort -n); do
  D=/var/tmp/benign-$$-$i
  git -C /repo worktree add -q $D HEAD || exit 9
  (cd $D && git apply $SRC/BENIGN/$i/patch.diff && go build ./...) || { echo "benign $i DOES-NOT-APPLY-OR-BUILD" >> $OUT; git -C /repo worktree remove --force $D; continue; }
  for p in C02 C07 C08 C09 C10 C11 C16 C17; do
    R=$(VERIF_REPO=$D /verif/check $p quick 2>&1 | grep -a "^$p quick\|^VIOLATION\|^violation\|^supervisor\|^check:\|HARNESS" | cut -c1-200 | tr '\n' ' ')
    echo "benign $i $p exit=$? $R" >> $OUT
  done
  git -C /repo worktree remove --force $D
done
echo DONE >> $OUT
