#!/usr/bin/env python3
# Regenerates /verif/MANIFEST.json (kept in the repo so the manifest is reproducible).
import json
na = {
 "C01":"pure function of (type, value, encoder settings): quantified over programs x inputs x configurations only; no schedule, clock, fault, stream or history for a simulator to control (DESIGN.md section 3). The shared codec cache it goes through is covered by C09.",
 "C03":"pure round-trip / size identity over (type, value); no schedule, fault, stream or carried state in its quantifier (DESIGN.md section 3).",
 "C04":"pure round-trip identity over (type, value, protocol); {fresh, Reset} is a two-valued configuration, not a history; the thrift stream seam is simulated under C08 where the property quantifies over crash points.",
 "C05":"language-recognition property over byte strings (inputs only); deciding it is fuzzing/differential testing, not simulation.",
 "C06":"robustness over inputs x programs only; the deciding activity is fuzzing under an out-of-process supervisor, no schedule or fault dimension in its quantifier.",
 "C12":"conformance of output bytes to the protobuf wire format: a relation between a pure function and an external format; needs a second implementation as oracle, nothing a scheduler or fault injector contributes to.",
 "C13":"conformance of output bytes to the Apache Thrift formats: pure; same reason as C12.",
 "C14":"metamorphic relation between pure function calls under flag subsets (inputs x configurations); no nondeterminism or fault to simulate.",
 "C15":"pure function of (value, prefix length, spare capacity); append never fails and nothing is exhausted, so there is no fault to inject.",
 "C18":"pure function over strings with a finite domain that calls for exhaustive enumeration, which is a different technique (bounded/exhaustive testing).",
 "C19":"pure transformation of byte strings / templates; no state, stream or fault.",
 "C20":"pure predicates over byte strings; exhaustive sweep of a finite domain is a different technique.",
}
pending = {}  # claimed by DESIGN.md, engine not landed yet: listed as not_applicable? No: simply absent until built.
checks=[]
ADDENDA = {
 "C02": " Added in the seeded waves (DESIGN 8.6): the caller's one input buffer (same address, new content, sometimes a window of a larger buffer with a quote behind it) is overwritten after every call; stream mode with a document straddling the first 32 KiB fill, one large document, and an option switched on between two Decodes; interfaces pre-populated with typed nils, plain values and []any holding pointers; fields sharing one slice or one (possibly empty) map; a target with several pointer fields per scalar kind.",
 "C07": " Added in the seeded waves: the worker is built with -d=checkptr; proto.Parse driven by the caller and compared with Scan; Fixed32/Fixed64 values; Scan-versus-Unmarshal oracle over re-spellings of varints; every prefix also sliced off in place (the rest of the message behind len); inputs at one reused address and two offsets; a destination decoded into again and again, also pre-filled with one-element slices; messages nested 300..4000 levels deep; a short message after a long one; foreign numbers aliasing declared ones modulo 2^8/2^16/2^24 both ways.",
 "C08": " Added in the seeded waves: strings / binaries of 65537..300000 bytes cut around every power of two, trailing bytes behind them; a long-lived Decoder over a stream of values, Reset after a failure, strict mode surviving Reset; MissingField and TypeMismatch below the top level; element / key / value types of non-empty collections; a required field removed while another is repeated; foreign id 0 and EOF right behind a foreign field; emptied destinations reused; embedded structs (three levels); messages written from the type's tags with a sample value per field; named collection types; inputs at one reused address.",
 "C09": " Added in the seeded waves: decode inputs are windows with caller-owned memory behind them that another task writes to; read-only inputs shared by several calls; zero-copy Parse flags; Marshal outputs beyond 64 KiB with the caller filling the spare capacity of what it was given; maps of 127..300 keys (themed runs); RawMessages marshalled from one reused buffer; times in several zones; caches pre-populated with 70..260 types; proto.Type accessors; calls on types the codecs refuse; case-changed keys and corrupted inputs.",
 "C10": " Added in the seeded waves: every value decoded without a zero-copy flag is deep-copied and compared as a whole after every later operation; Tokenizer.String results tracked, one Tokenizer reused through Reset; the buffers the Decoder passed to Read are known by address; everything a zero-copy Decoder handed out is frozen once that Decoder is finished; RawMessage arguments that are windows of guarded buffers; the utility entry points (Append, MarshalIndent, Valid, Compact, Indent, HTMLEscape, Escape, Unescape); integer-representation flags; long mixed-case keys; ,string strings.",
 "C11": " Added in the seeded waves: values compared again after the stream; a reader error wrapping io.EOF; the reader's own error demanded inside a value too; runs of 99..300 zero-length reads; options set between two Decodes; readers returned by Buffered read in two parts around another Buffered call; accessors before the first Decode; a second Decoder used in turns; the last value aligned to a fill boundary with whitespace only behind it; drawn whitespace patterns.",
 "C16": " Added in the seeded waves: several values of one type per run, also stored in turn in one variable, changed in place between two encodes, or with two fields sharing one slice; empty strings sliced from non-empty ones; values beyond 64 KiB / 1 MiB with sampled destination lengths; field numbers beyond 16 bits; every field number in the produced bytes must be declared at its level (reference parser); top-level RawMessage, byte arrays, scalars; maps with pointer values; untagged fields behind unexported ones.",
 "C17": " Added in the seeded waves: nesting up to 10000 levels, sibling counts around 2^8 and 2^16; invalid UTF-8 next to valid multi-byte text and literal U+FFFD; escaped surrogate pairs at the range boundaries; escaped backslash runs up to 19; one input buffer per tokenizer (same address, new content, sometimes a window with a quote behind it); records of the previous document's shape after Reset; String() results kept and read again later.",
}

def chk(pid, engine, cat, text, note, tech, ref):
    text = text + ADDENDA.get(pid, "")
    checks.append({"property_id":pid,"quick_cmd":f"./check {pid} quick","thorough_cmd":f"./check {pid} thorough",
      "evidence_file":f"/verif/evidence/{pid}.json","replay_cmd_template":f"./check {pid} --replay {{path}}","engine":engine,
      "level_claimed":{"category":cat,"text":text,"design_ref":ref},"level_note":note,"technique":tech})

chk("C09","sched","exploration",
 "Seeded search over schedules of concurrent first use: 2-6 simulated goroutines x 1-4 operations (json/proto/thrift entry points) over fresh and shared types on pristine caches and pools; every atomic, mutex and pool operation of the library is a scheduling point chosen from the run's tape (random walk, PCT, load-biased strategies; pool policies LIFO/FIFO/random/never-reuse/drop). Oracles: each result equals the same call run alone on pristine state; the Go race detector, made schedule-deterministic by hiding the scheduler's hand-offs from it, reports any two conflicting accesses the library did not order; pool double-put and poison-on-put monitors; no panic or deadlock. Sampling of an unbounded schedule x type space: exploration is the honest level.",
 "Trusts shim fidelity (scheduling point + the real operation; cooperative spinning instead of blocking), sequential consistency of race-free executions (Go memory model), the race detector's bounded history; reflect, runtime and segmentio/asm run real and are trusted.",
 "deterministic simulation: seeded token-passing scheduler over import-redirected sync/atomic, simulated sync.Pool, schedule-deterministic race detection, run-alone reference","DESIGN.md sections 2.1-2.4, 3 C09")
chk("C11","simio","exploration",
 "Seeded search over (value stream x chunking schedule x reader fault sequence): every run drives the real json.Decoder through a simulated io.Reader (any chunk sizes down to 1 byte, zero-length reads, data returned with an error, EOF / io.ErrUnexpectedEOF / custom / wrapped error at an offset biased inside in-flight tokens) and refines the sequence of values, the terminal error, InputOffset and Buffered against encoding/json's Decoder given the delivered bytes in one read. Sampling, not enumeration: a clean batch is evidence over the explored schedules, which is the right level because the space of chunkings x fault offsets x streams is unbounded.",
 "Trusts encoding/json of the toolchain as reference, the simulated reader honouring the io.Reader contract, and valid-JSON-only streams (value semantics is C02's input dimension).",
 "deterministic simulation: simulated io.Reader with seeded chunk schedules and injected reader faults, refinement against encoding/json","DESIGN.md section 3 C11")

# ENGINES_FIRST
engines=[
 {"name":"simio","path":"sim/simio, sim/props/c11.go","serves_properties":["C11","C08","C10"],"kind_free_text":"simulated io.Reader (scripted chunking, zero-length reads, data returned with an error, terminal EOF / ErrUnexpectedEOF / custom / wrapped errors at chosen offsets; with and without io.ByteReader) and guarded caller buffers (canaries + shadow copy); reference model encoding/json"},
 {"name":"sched","path":"shim/{sync,atomic,simhook}, tools/instrument, sim/props/c09.go c10.go c17.go","serves_properties":["C09","C10","C17"],"kind_free_text":"seeded token-passing scheduler over real goroutines behind import-redirected sync and sync/atomic (random walk, PCT, load-biased strategies); simulated sync.Pool (LIFO/FIFO/random/never-reuse/drop, poison on put, double-put monitor); Go race detector with the scheduler's hand-offs hidden from it (C09)"},
 {"name":"wirefault","path":"sim/ref, sim/props/c07.go c08.go","serves_properties":["C07","C08"],"kind_free_text":"storage/transport fault operators over encoded messages, driven by independent reference parsers/serialisers of the protobuf wire format and both thrift protocols: tear at every offset, byte rot, length/count inflation and negation, over-long and overflowing varints, wire-type changes, foreign fields at every boundary of every nesting level, removed required fields"},
 {"name":"bufexhaust","path":"sim/props/c16.go","serves_properties":["C16"],"kind_free_text":"destination-exhaustion fault enumerated at every length 0..Size+16 with guard bytes, two buffer shapes"},
 {"name":"hist","path":"sim/props/c02.go","serves_properties":["C02"],"kind_free_text":"seeded histories of decodes into one persistent target (step by step and through one Decoder), refined against encoding/json as executable reference model"},
 {"name":"tape / worker / supervisor","path":"sim/tape, sim/core, sim/cmd/worker, sim/cmd/supervisor, check","serves_properties":["C02","C07","C08","C09","C10","C11","C16","C17"],"kind_free_text":"one choice tape per run seeded from VERIF_SEED; one OS process per chunk of runs; crash attribution, confirmation in a fresh process, tape minimisation (in-process, and at process level through a memory-mapped tape mirror for runs that kill the worker), replay files with literal scenarios, known-findings handling, determinism self-test, evidence"},
]
import sys
extra = {}
try:
    exec(open('/verif/tools/manifest_extra.py').read())
except FileNotFoundError:
    pass
checks.sort(key=lambda c:c["property_id"])
claimed={c["property_id"] for c in checks}
m={"version":1,"setup_cmd":"./setup.sh",
 "hooks":{"guard":"none in /repo: seams are added at check time by redirecting the imports \"sync\" and \"sync/atomic\" of a scratch copy of the working tree to shim packages (tools/instrument); /repo carries no hook code",
          "enable":"./check <ID> <tier> copies /repo's working tree to /var/tmp/verif-work/<tmp>/repo, copies /verif/shim into it as verifshim/ and runs bin/instrument over the non-test sources (all engines), then builds /verif/sim against that copy (with -race for C09)",
          "baseline_off_cmd":"cd /repo && GOFLAGS=-mod=mod go test -vet=off -count=1 ./...",
          "source_commits":[],"add_only":True},
 "engines":engines,
 "checks":checks,
 "not_applicable":[{"property_id":k,"reason":v} for k,v in sorted(na.items()) if k not in claimed],
 "notes":"Technique: deterministic simulation with fault injection. One integer (VERIF_SEED) seeds a choice tape per run; replay files carry the tape (and a literal scenario). Exit 0 held / 1 VIOLATION / 2 harness or build trouble. Genuine defects found are repaired by fix: commits in /repo and listed in known_findings.json (status fixed) with regression witnesses; defects not repaired are listed there with status known."}
json.dump(m,open('/verif/MANIFEST.json','w'),indent=1)
print("claimed:",sorted(claimed))
