#!/bin/bash
cd "$(dirname "$0")/.." || exit 2
for s in ${SEEDS:-2 3 4 5 6 7 8 9}; do for p in C02 C07 C08 C09 C10 C11 C16 C17; do echo "seed $s $(VERIF_SEED=$s ./check $p quick 2>&1 | grep -a "^$p quick\|^VIOLATION\|^supervisor\|HARNESS" | cut -c1-200 | tr '\n' ' ')"; done; done
